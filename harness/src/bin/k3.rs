//! K3: runs whole cases (source + chain + terminal + parameters) against the real crate and
//! prints, per case, the result and everything observed (call logs, construction-time calls,
//! threads, hook events).  Case lines on stdin, one observation line per case on stdout.
#[path = "../rt.rs"]
mod rt;
#[path = "../gen_k3.rs"]
mod gen_k3;

use rt::*;
use std::io::{BufRead, Write};

fn main() {
    if std::env::var("VERIF_SHOW_PANICS").is_err() {
        std::panic::set_hook(Box::new(|_| {}));
    }
    install_sink();
    let tok_mode = std::env::args().any(|a| a == "tok");
    let stdin = std::io::stdin();
    let stdout = std::io::stdout();
    let mut out = std::io::BufWriter::new(stdout.lock());
    for line in stdin.lock().lines() {
        let line = line.unwrap();
        if line.trim().is_empty() {
            continue;
        }
        let c = parse_case(&line);
        reset();
        let _ = take_effin();
        RED_THREADS.lock().unwrap_or_else(|e| e.into_inner()).clear();
        *g().panic_at.lock().unwrap_or_else(|e| e.into_inner()) = c.panic_at;
        *RED_PANIC.lock().unwrap_or_else(|e| e.into_inner()) = c.rpanic;
        COUNT_ONLY.store(c.big > 0, std::sync::atomic::Ordering::SeqCst);
        DELAY_US.store(c.delay_us, std::sync::atomic::Ordering::SeqCst);
        let hdr = std::cell::RefCell::new(String::from("params=? kind=?"));
        if tok_mode {
            tok_reset();
            let res = std::panic::catch_unwind(std::panic::AssertUnwindSafe(|| gen_k3::dispatch_tok(&c, &hdr)));
            let res = match res {
                Ok(r) => r,
                Err(_) => "P".to_string(),
            };
            // everything the terminal returned has been dropped by now (results are rendered to strings)
            writeln!(out, "id={} res={} {} {} {}", c.id, res, hdr.borrow(), tok_report(), observations()).unwrap();
            out.flush().unwrap();
            continue;
        }
        if let Some(picks) = &c.macro_sched {
            sched::start(picks.clone());
        }
        let res = std::panic::catch_unwind(std::panic::AssertUnwindSafe(|| gen_k3::dispatch(&c, &hdr)));
        let (exhausted, used) = sched::stop();
        let res = match res {
            Ok(r) => r,
            Err(_) => "P".to_string(),
        };
        writeln!(out, "id={} res={} {} {} sched_exhausted={} picks_used={}{}", c.id, res, hdr.borrow(), observations(), exhausted as u8, used, take_effin()).unwrap();
        out.flush().unwrap();
    }
}
