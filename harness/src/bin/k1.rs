//! K1: the settings arithmetic of the real crate, evaluated on case lines from stdin.
//!
//! line:  <nt> <cskind> <c> <len|-> <avail> <task> <num_spawned> <hm|->
//!   nt: requested threads as usize (0 = Auto); cskind: a|m|e (Auto/Min/Exact), c: its size
//! out:   <max_threads> <chunk> <exact 0/1> <do_spawn 0/1> <next: -|c>     or   panic
use orx_parallel::verif::pure;
use orx_parallel::{ChunkSize, NumThreads, Params};
use std::io::{BufRead, Write};
use std::num::NonZeroUsize;

fn opt(s: &str) -> Option<usize> {
    match s {
        "-" => None,
        x => Some(x.parse().unwrap()),
    }
}

fn main() {
    std::panic::set_hook(Box::new(|_| {}));
    let stdin = std::io::stdin();
    let stdout = std::io::stdout();
    let mut out = std::io::BufWriter::new(stdout.lock());
    for line in stdin.lock().lines() {
        let line = line.unwrap();
        let t: Vec<&str> = line.split_whitespace().collect();
        if t.is_empty() {
            continue;
        }
        let nt: usize = t[0].parse().unwrap();
        let c: usize = t[2].parse().unwrap();
        let len = opt(t[3]);
        let avail: usize = t[4].parse().unwrap();
        let task: u8 = t[5].parse().unwrap();
        let ns: usize = t[6].parse().unwrap();
        let hm = opt(t[7]);
        let num_threads: NumThreads = nt.into();
        let chunk_size = match t[1] {
            "a" => ChunkSize::Auto,
            "m" => ChunkSize::Min(NonZeroUsize::new(c).unwrap()),
            "e" => ChunkSize::Exact(NonZeroUsize::new(c).unwrap()),
            _ => panic!("cskind"),
        };
        let params = Params {
            num_threads,
            chunk_size,
        };
        let r = std::panic::catch_unwind(|| {
            let (m, ch, ex) = pure::runner_new(params, task, len, avail);
            let (ds, nc) = pure::spawn_decisions(params, task, len, avail, ns, hm);
            (m, ch, ex, ds, nc)
        });
        match r {
            Ok((m, ch, ex, ds, nc)) => {
                let nc = match nc {
                    None => "-".to_string(),
                    Some(x) => x.to_string(),
                };
                writeln!(out, "{} {} {} {} {}", m, ch, ex as u8, ds as u8, nc).unwrap();
            }
            Err(_) => writeln!(out, "panic").unwrap(),
        }
    }
}
