//! K7: source conversions.  Every `par()` / `into_par()` of the crate (Vec, array, slice, range,
//! the std collections by reference and by value, concurrent iterators, the cloning view, plain
//! iterators) is run through a few pipelines and terminals under several parameter settings and
//! compared with the collection's own sequential iterator under the same std adaptors -- which is
//! what the model takes as "the source sequence".  One line per (conversion, case) on stdout.
//! Input lines: `seed=<n> n=<len>`.
use orx_concurrent_iter::{ConcurrentIterX, IntoConcurrentIter, IterIntoConcurrentIter};
use orx_parallel::*;
use std::collections::{BTreeMap, BTreeSet, BinaryHeap, HashMap, HashSet, LinkedList, VecDeque};
use std::io::BufRead;

struct Rng(u64);
impl Rng {
    fn next(&mut self) -> u64 {
        self.0 ^= self.0 << 13;
        self.0 ^= self.0 >> 7;
        self.0 ^= self.0 << 17;
        self.0
    }
    fn below(&mut self, n: u64) -> u64 {
        self.next() % n.max(1)
    }
}

const SETTINGS: [(usize, usize, bool); 6] =
    [(1, 1, true), (4, 1, true), (3, 2, true), (0, 0, true), (8, 64, true), (2, 3, false)];

fn chunk(c: usize, exact: bool) -> ChunkSize {
    match (c, exact) {
        (0, _) => ChunkSize::Auto,
        (c, true) => ChunkSize::Exact(std::num::NonZeroUsize::new(c).unwrap()),
        (c, false) => ChunkSize::Min(std::num::NonZeroUsize::new(c).unwrap()),
    }
}

/// runs the pipelines over a parallel iterator built by `mk` (item projected to i64 by the
/// pipelines' first map) and compares with `seq`, the projected sequence of the std iterator
fn check<P, F>(name: &str, seq: &[i64], mk: F, out: &mut Vec<String>)
where
    P: Par<Item = i64>,
    F: Fn() -> P,
{
    for (nt, cs, ex) in SETTINGS {
        let tag = format!("{} nt={} cs={}{}", name, nt, cs, if ex { "e" } else { "m" });
        // ordered collect through a map
        let got = mk().num_threads(nt).chunk_size(chunk(cs, ex)).map(|x| x * 3 + 1).collect_vec();
        let want: Vec<i64> = seq.iter().map(|x| x * 3 + 1).collect();
        if got != want {
            out.push(format!("MISMATCH {} term=map.collect_vec got={:?} want={:?}", tag, got, want));
        }
        // ordered collect through a filter (merge path)
        let got = mk().num_threads(nt).chunk_size(chunk(cs, ex)).filter(|x| x % 3 != 0).collect_vec();
        let want: Vec<i64> = seq.iter().cloned().filter(|x| x % 3 != 0).collect();
        if got != want {
            out.push(format!("MISMATCH {} term=filter.collect_vec got={:?} want={:?}", tag, got, want));
        }
        // bare collect
        let got = mk().num_threads(nt).chunk_size(chunk(cs, ex)).collect_vec();
        if got != seq {
            out.push(format!("MISMATCH {} term=collect_vec got={:?} want={:?}", tag, got, seq));
        }
        // unordered collect
        let mut got = mk().num_threads(nt).chunk_size(chunk(cs, ex)).flat_map(|x| vec![x, x + 1000]).collect_x().into_iter().collect::<Vec<_>>();
        got.sort();
        let mut want: Vec<i64> = seq.iter().flat_map(|x| vec![*x, *x + 1000]).collect();
        want.sort();
        if got != want {
            out.push(format!("MISMATCH {} term=flat_map.collect_x got={:?} want={:?}", tag, got, want));
        }
        // count, reduce, find
        let got = mk().num_threads(nt).chunk_size(chunk(cs, ex)).filter(|x| x % 2 == 0).count();
        let want = seq.iter().filter(|x| *x % 2 == 0).count();
        if got != want {
            out.push(format!("MISMATCH {} term=filter.count got={} want={}", tag, got, want));
        }
        let got = mk().num_threads(nt).chunk_size(chunk(cs, ex)).count();
        if got != seq.len() {
            out.push(format!("MISMATCH {} term=count got={} want={}", tag, got, seq.len()));
        }
        let got = mk().num_threads(nt).chunk_size(chunk(cs, ex)).reduce(|a, b| a.wrapping_add(b));
        let want = seq.iter().cloned().reduce(|a, b| a.wrapping_add(b));
        if got != want {
            out.push(format!("MISMATCH {} term=reduce got={:?} want={:?}", tag, got, want));
        }
        let got = mk().num_threads(nt).chunk_size(chunk(cs, ex)).find(|x| x % 5 == 2);
        let want = seq.iter().cloned().find(|x| x % 5 == 2);
        if got != want {
            out.push(format!("MISMATCH {} term=find got={:?} want={:?}", tag, got, want));
        }
        let got = mk().num_threads(nt).chunk_size(chunk(cs, ex)).first();
        let want = seq.first().cloned();
        if got != want {
            out.push(format!("MISMATCH {} term=first got={:?} want={:?}", tag, got, want));
        }
    }
}

fn pair(k: &i64, v: &i64) -> i64 {
    k * 1000 + v
}

/// ordered by key only: equal keys are distinguishable by id
#[derive(Clone, Copy, Debug)]
struct Keyed {
    key: i64,
    id: usize,
}
impl PartialEq for Keyed {
    fn eq(&self, o: &Self) -> bool {
        self.key == o.key
    }
}
impl Eq for Keyed {}
impl PartialOrd for Keyed {
    fn partial_cmp(&self, o: &Self) -> Option<std::cmp::Ordering> {
        Some(self.cmp(o))
    }
}
impl Ord for Keyed {
    fn cmp(&self, o: &Self) -> std::cmp::Ordering {
        self.key.cmp(&o.key)
    }
}

/// a user-defined fallible whose inspection is counted: each produced fallible is asked
/// `has_value` once and, if it has one, `value` once
static HAS_CALLS: std::sync::atomic::AtomicUsize = std::sync::atomic::AtomicUsize::new(0);
static VAL_CALLS: std::sync::atomic::AtomicUsize = std::sync::atomic::AtomicUsize::new(0);
struct Maybe(Option<i64>);
impl Fallible<i64> for Maybe {
    fn value(self) -> i64 {
        VAL_CALLS.fetch_add(1, std::sync::atomic::Ordering::SeqCst);
        self.0.unwrap()
    }
    fn has_value(&self) -> bool {
        HAS_CALLS.fetch_add(1, std::sync::atomic::Ordering::SeqCst);
        self.0.is_some()
    }
}
fn fallible_counts<R>(f: impl FnOnce() -> R) -> (usize, usize, R) {
    use std::sync::atomic::Ordering::SeqCst;
    HAS_CALLS.store(0, SeqCst);
    VAL_CALLS.store(0, SeqCst);
    let r = f();
    (HAS_CALLS.load(SeqCst), VAL_CALLS.load(SeqCst), r)
}

fn pstr(p: Params) -> String {
    format!("{:?}/{:?}", p.num_threads, p.chunk_size)
}

/// things the generated computations cannot express: items whose order ignores part of the value
/// (which of several tied extrema the sequential terminal returns), computations built on a worker
/// thread of another computation (defaults), cloned()/copied() with parameters set before them
fn extras(data: &[i64], out: &mut Vec<String>) -> usize {
    let mut n = 0;
    let items: Vec<Keyed> = data.iter().enumerate().map(|(id, k)| Keyed { key: k.rem_euclid(4), id }).collect();
    for cs in [0usize, 1, 2, 5] {
        // sequential mode returns exactly what std returns (last maximum, first minimum)
        let got = items.clone().into_par().num_threads(1).chunk_size(cs).max().map(|x| x.id);
        let want = items.iter().cloned().max().map(|x| x.id);
        n += 1;
        if got != want {
            out.push(format!("MISMATCH Keyed nt=1 cs={} term=seq.max got={:?} want={:?}", cs, got, want));
        }
        let got = items.clone().into_par().num_threads(1).chunk_size(cs).min().map(|x| x.id);
        let want = items.iter().cloned().min().map(|x| x.id);
        n += 1;
        if got != want {
            out.push(format!("MISMATCH Keyed nt=1 cs={} term=seq.min got={:?} want={:?}", cs, got, want));
        }
        let got = items.clone().into_par().num_threads(1).chunk_size(cs).min_by_key(|x| x.key).map(|x| x.id);
        let want = items.iter().cloned().min_by_key(|x| x.key).map(|x| x.id);
        n += 1;
        if got != want {
            out.push(format!("MISMATCH Keyed nt=1 cs={} term=seq.min_by_key got={:?} want={:?}", cs, got, want));
        }
    }
    // a user-defined Fallible in filter_map: inspected exactly once per produced fallible
    let nsome = data.iter().filter(|x| **x % 3 != 0).count();
    for (nt, cs) in [(1usize, 1usize), (1, 4), (3, 1), (3, 4), (2, 64), (0, 0)] {
        let mk = || data.par().num_threads(nt).chunk_size(cs).filter_map(|x| Maybe(if *x % 3 != 0 { Some(*x) } else { None }));
        let runs: Vec<(&str, (usize, usize, usize))> = vec![
            ("collect_vec", { let (h, v, r) = fallible_counts(|| mk().collect_vec()); (h, v, r.len()) }),
            ("collect_x", { let (h, v, r) = fallible_counts(|| mk().collect_x()); (h, v, r.into_iter().count()) }),
            ("count", { let (h, v, r) = fallible_counts(|| mk().count()); (h, v, r) }),
            ("reduce", { let (h, v, r) = fallible_counts(|| mk().reduce(|a, b| a.wrapping_add(b))); (h, v, r.is_some() as usize) }),
            ("filter.collect_vec", { let (h, v, r) = fallible_counts(|| mk().filter(|x| *x % 2 == 0).collect_vec()); (h, v, r.len()) }),
        ];
        for (name, (h, v, _)) in runs {
            n += 1;
            if h != data.len() || v != nsome {
                out.push(format!("MISMATCH Fallible nt={} cs={} term=fallible.{} got=has_value:{}/value:{} want=has_value:{}/value:{}",
                                 nt, cs, name, h, v, data.len(), nsome));
            }
        }
    }
    // inner iterators of more than a million items (once per run of the binary: it is the same for every seed)
    static LONG_DONE: std::sync::atomic::AtomicBool = std::sync::atomic::AtomicBool::new(false);
    if !LONG_DONE.swap(true, std::sync::atomic::Ordering::SeqCst) {
        let inner = (1usize << 20) + 5;
        let inputs: Vec<usize> = (0..4).collect();
        let want: Vec<usize> = inputs.iter().flat_map(|x| (0..inner).map(move |j| (x << 22) | j)).collect();
        for (nt, cs) in [(4usize, 1usize), (2, 1), (3, 2)] {
            let got = inputs.par().num_threads(nt).chunk_size(cs).flat_map(|x| (0..inner).map(move |j| (*x << 22) | j)).collect_vec();
            n += 1;
            if got != want {
                let pos = got.iter().zip(want.iter()).position(|(a, b)| a != b);
                out.push(format!("MISMATCH long-inner nt={} cs={} term=flat_map.long got=len:{}/first-difference-at:{:?} want=len:{}", nt, cs, got.len(), pos, want.len()));
            }
            let got = inputs.par().num_threads(nt).chunk_size(cs).flat_map(|x| (0..inner).map(move |j| (*x << 22) | j)).filter(|v| v % 3 != 0).collect_vec();
            let want_f: Vec<usize> = want.iter().cloned().filter(|v| v % 3 != 0).collect();
            n += 1;
            if got != want_f {
                out.push(format!("MISMATCH long-inner nt={} cs={} term=flat_map.long got=len:{} want=len:{}", nt, cs, got.len(), want_f.len()));
            }
        }
    }
    // defaults are Auto/Auto wherever the computation is built: here inside a closure that runs on the
    // worker threads of another computation
    let outer: Vec<usize> = (0..64).collect();
    let reports: Vec<String> = outer
        .par()
        .num_threads(4)
        .chunk_size(1)
        .map(|_| {
            let inner = data.par();
            let a = pstr(inner.params());
            let b = pstr(inner.map(|x| *x + 1).filter(|x| *x != 7).params());
            format!("{}|{}", a, b)
        })
        .collect_vec();
    let want = format!("{}|{}", pstr(Params::default()), pstr(Params::default()));
    n += 1;
    if let Some(bad) = reports.iter().find(|r| **r != want) {
        out.push(format!("MISMATCH nested nt=4 cs=1 term=params.default got={} want={}", bad, want));
    }
    // cloned() / copied() are transformations: parameters set before them stay
    let base = data.par().num_threads(3).chunk_size(5);
    let want = pstr(base.params());
    let base_seq = data.par().num_threads(1);
    n += 4;
    let got = pstr(data.par().num_threads(3).chunk_size(5).copied().params());
    if got != want {
        out.push(format!("MISMATCH par.copied nt=3 cs=5 term=params.copied got={} want={}", got, want));
    }
    let got = pstr(data.par().num_threads(3).chunk_size(5).cloned().params());
    if got != want {
        out.push(format!("MISMATCH par.cloned nt=3 cs=5 term=params.cloned got={} want={}", got, want));
    }
    let got = pstr(data.par().num_threads(3).chunk_size(5).map(|x| *x).copied_check());
    let _ = got;
    let got = pstr(data.par().num_threads(1).copied().params());
    if got != pstr(base_seq.params()) {
        out.push(format!("MISMATCH par.copied nt=1 cs=0 term=params.copied got={} want={}", got, pstr(base_seq.params())));
    }
    let got = pstr(data.par().map(|x| *x + 1).num_threads(2).chunk_size(7).filter(|x| *x > 0).params());
    let want2 = pstr(data.par().num_threads(2).chunk_size(7).params());
    if got != want2 {
        out.push(format!("MISMATCH par.map.filter nt=2 cs=7 term=params.kept got={} want={}", got, want2));
    }
    n
}

trait CopiedCheck {
    fn copied_check(self) -> Params;
}
impl<P: Par> CopiedCheck for P {
    fn copied_check(self) -> Params {
        self.params()
    }
}

fn main() {
    let stdin = std::io::stdin();
    for line in stdin.lock().lines() {
        let line = line.unwrap();
        let mut seed = 1u64;
        let mut n = 10usize;
        for tok in line.split_whitespace() {
            if let Some(v) = tok.strip_prefix("seed=") {
                seed = v.parse().unwrap();
            }
            if let Some(v) = tok.strip_prefix("n=") {
                n = v.parse().unwrap();
            }
        }
        let mut r = Rng(seed.wrapping_mul(0x9E3779B97F4A7C15) | 1);
        let data: Vec<i64> = (0..n).map(|_| r.below(61) as i64 - 20).collect();
        let mut out: Vec<String> = vec![];
        let mut checked = 0usize;
        macro_rules! run {
            ($name:expr, $seq:expr, $mk:expr) => {{
                let seq: Vec<i64> = $seq;
                check($name, &seq, $mk, &mut out);
                checked += 1;
            }};
        }
        // --- Vec, slice, array, range
        run!("Vec.into_par", data.clone(), || data.clone().into_par());
        run!("Vec.par", data.clone(), || data.par().map(|x| *x));
        run!("slice.into_par", data.clone(), || data.as_slice().into_par().map(|x| *x));
        {
            let sl: &[i64] = &data[..];
            run!("slice.par", data.clone(), || sl.par().map(|x| *x));
        }
        {
            let arr: [i64; 7] = [3, -1, 4, 1, -5, 9, 2];
            run!("array.par", arr.to_vec(), || arr.par().map(|x| *x));
        }
        {
            let lo = r.below(9) as usize;
            run!("Range.into_par", (lo..lo + n).map(|x| x as i64).collect(), || (lo..lo + n).into_par().map(|x| x as i64));
        }
        // --- concurrent iterators as sources (fresh and advanced)
        run!("ConIterOfVec.into_par", data.clone(), || data.clone().into_con_iter().into_par());
        run!("ConIterOfSlice.into_par", data.clone(), || data.as_slice().into_con_iter().into_par().map(|x| *x));
        run!("ConIterOfRange.into_par", (0..n).map(|x| x as i64).collect(), || IntoConcurrentIter::into_con_iter(0..n).into_par().map(|x| x as i64));
        run!("ConIterOfIter.into_par", data.clone(), || IterIntoConcurrentIter::into_con_iter(data.clone().into_iter()).into_par());
        run!("Cloned.into_par", data.clone(), || orx_concurrent_iter::IntoCloned::cloned(data.as_slice().into_con_iter()).into_par());
        run!("par.cloned", data.clone(), || data.par().cloned());
        run!("par.copied", data.clone(), || data.par().copied());
        {
            let k = r.below(n as u64 + 1) as usize;
            // advanced sources: filtered pipelines, counts, reductions and finds (the map-only ordered
            // collect over such a source is a known finding and is exercised by K3)
            let rest: Vec<i64> = data[k.min(n)..].to_vec();
            let mk = || {
                let ci = data.clone().into_con_iter();
                for _ in 0..k {
                    let _ = ci.next();
                }
                ci.into_par().filter(|_| true)
            };
            run!("ConIterOfVec(advanced).into_par.filter", rest, mk);
        }
        // --- plain iterators
        run!("Iterator.par(exact)", data.clone(), || data.clone().into_iter().par());
        run!("Iterator.par(unknown)", data.iter().cloned().filter(|x| x % 7 != 0).collect(), || data.clone().into_iter().filter(|x| x % 7 != 0).par());
        // --- std collections in non-trivial internal states
        {
            // wrapped ring buffer
            let mut dq: VecDeque<i64> = VecDeque::with_capacity(n + 3);
            let h = n / 2;
            for x in data[..h].iter().rev() {
                dq.push_front(*x);
            }
            for x in &data[h..] {
                dq.push_back(*x);
            }
            run!("VecDeque.par", dq.iter().cloned().collect(), || dq.par().map(|x| *x));
            run!("VecDeque.into_par", dq.iter().cloned().collect(), || dq.clone().into_par());
            // after removals at both ends
            let mut dq2 = dq.clone();
            dq2.pop_front();
            dq2.pop_back();
            dq2.push_back(77);
            run!("VecDeque(popped).par", dq2.iter().cloned().collect(), || dq2.par().map(|x| *x));
        }
        {
            let mut bs: BTreeSet<i64> = data.iter().cloned().collect();
            if let Some(x) = data.first() {
                bs.remove(x);
            }
            run!("BTreeSet.par", bs.iter().cloned().collect(), || bs.par().map(|x| *x));
            run!("BTreeSet.into_par", bs.iter().cloned().collect(), || bs.clone().into_par());
        }
        {
            let hs: HashSet<i64> = data.iter().cloned().collect();
            run!("HashSet.par", hs.iter().cloned().collect(), || hs.par().map(|x| *x));
            let hs2 = hs.clone();
            run!("HashSet.into_par", hs2.clone().into_iter().collect(), || hs2.clone().into_par());
        }
        {
            let bm: BTreeMap<i64, i64> = data.iter().enumerate().map(|(i, x)| (*x, i as i64)).collect();
            run!("BTreeMap.par", bm.iter().map(|(k, v)| pair(k, v)).collect(), || bm.par().map(|(k, v)| pair(k, v)));
            run!("BTreeMap.into_par", bm.iter().map(|(k, v)| pair(k, v)).collect(), || bm.clone().into_par().map(|(k, v)| pair(&k, &v)));
        }
        {
            let hm: HashMap<i64, i64> = data.iter().enumerate().map(|(i, x)| (*x, i as i64)).collect();
            run!("HashMap.par", hm.iter().map(|(k, v)| pair(k, v)).collect(), || hm.par().map(|(k, v)| pair(k, v)));
            let hm2 = hm.clone();
            run!("HashMap.into_par", hm2.clone().into_iter().map(|(k, v)| pair(&k, &v)).collect(), || hm2.clone().into_par().map(|(k, v)| pair(&k, &v)));
        }
        {
            let mut ll: LinkedList<i64> = data.iter().cloned().collect();
            ll.push_front(-99);
            run!("LinkedList.par", ll.iter().cloned().collect(), || ll.par().map(|x| *x));
            run!("LinkedList.into_par", ll.iter().cloned().collect(), || ll.clone().into_par());
        }
        {
            let mut bh: BinaryHeap<i64> = data.iter().cloned().collect();
            bh.pop();
            run!("BinaryHeap.par", bh.iter().cloned().collect(), || bh.par().map(|x| *x));
            run!("BinaryHeap.into_par", bh.clone().into_iter().collect(), || bh.clone().into_par());
        }
        let extra = extras(&data, &mut out);
        println!("seed={} n={} conversions={} extras={} mismatches={}", seed, n, checked, extra, out.len());
        for o in out.iter().take(20) {
            println!("{}", o.replacen("MISMATCH ", &format!("MISMATCH seed={} n={} ", seed, n), 1));
        }
        println!("END");
    }
}
