//! Runtime shared by the generated harness programs: the closure DSL (the same one as
//! Exec.v), logging closures, the instrumented iterator source, the hook sink, case parsing.
#![allow(dead_code)]
use orx_parallel::verif::{self, Event};
use orx_parallel::ChunkSize;
use std::collections::{HashMap, VecDeque};
use std::num::NonZeroUsize;
use std::sync::atomic::{AtomicBool, AtomicUsize, Ordering};
use std::sync::{Arc, Mutex};
use std::thread::ThreadId;

pub trait AsI64 {
    fn v(&self) -> i64;
}
impl AsI64 for i64 {
    fn v(&self) -> i64 {
        *self
    }
}
impl AsI64 for usize {
    fn v(&self) -> i64 {
        *self as i64
    }
}
impl<T: AsI64> AsI64 for &T {
    fn v(&self) -> i64 {
        (**self).v()
    }
}

#[derive(Clone, Copy, Debug)]
pub enum Cl {
    Affine(i64, i64),
    MapMod(i64),
    KeepMod(i64, i64),
    KeepLt(i64),
    KeepGe(i64),
    KeepAll,
    Rep(usize, i64),
    RepMod(i64),
    SomeMod(i64, i64, i64, i64),
    /// panics when called with this argument (C14), otherwise behaves like the inner map x -> x
    None,
}

pub fn run_map(c: Cl, x: i64) -> i64 {
    match c {
        Cl::Affine(a, b) => a * x + b,
        Cl::MapMod(m) => x.rem_euclid(m),
        _ => panic!("not a map closure"),
    }
}
pub fn run_fil(c: Cl, x: i64) -> bool {
    match c {
        Cl::KeepMod(m, r) => x.rem_euclid(m) == r,
        Cl::KeepLt(t) => x < t,
        Cl::KeepGe(t) => x >= t,
        Cl::KeepAll => true,
        _ => panic!("not a filter closure"),
    }
}
pub fn run_flat(c: Cl, x: i64) -> Vec<i64> {
    match c {
        Cl::Rep(k, d) => (0..k as i64).map(|j| x + d * j).collect(),
        Cl::RepMod(m) => (0..x.rem_euclid(m)).map(|j| x * 2 + j).collect(),
        _ => panic!("not a flat_map closure"),
    }
}
pub fn run_fm(c: Cl, x: i64) -> Option<i64> {
    match c {
        Cl::SomeMod(m, r, a, b) => {
            if x.rem_euclid(m) == r {
                Some(a * x + b)
            } else {
                None
            }
        }
        _ => panic!("not a filter_map closure"),
    }
}

#[derive(Clone, Copy, Debug, PartialEq)]
pub enum RedOp {
    Add,
    Xor,
    Min,
    Max,
    Sub,
    Poly,
}
pub fn run_red(o: RedOp, a: i64, b: i64) -> i64 {
    match o {
        RedOp::Add => a.wrapping_add(b),
        RedOp::Xor => a ^ b,
        RedOp::Min => a.min(b),
        RedOp::Max => a.max(b),
        RedOp::Sub => a.wrapping_sub(b),
        RedOp::Poly => a.wrapping_mul(31).wrapping_add(b),
    }
}

// ------------------------------------------------------------------ logging

#[derive(Clone, Debug)]
pub struct Rec {
    pub phase: u8, // 0 = construction, 1 = terminal running
    pub thread: usize,
    pub stage: usize,
    pub arg: i64,
}

pub struct Global {
    pub log: Mutex<Vec<Rec>>,
    pub threads: Mutex<HashMap<ThreadId, usize>>,
    pub events: Mutex<Vec<(usize, Event)>>,
    pub phase: AtomicUsize,
    pub live: AtomicUsize,
    pub max_live: AtomicUsize,
    pub reentered: AtomicBool,
    pub panic_at: Mutex<Option<(usize, i64)>>, // (stage, argument) at which the closure panics
    pub src_calls: Mutex<Vec<(usize, usize)>>, // (thread, call number) of the source iterator's next()
}

pub static G: std::sync::OnceLock<Global> = std::sync::OnceLock::new();

pub fn g() -> &'static Global {
    G.get_or_init(|| Global {
        log: Mutex::new(vec![]),
        threads: Mutex::new(HashMap::new()),
        events: Mutex::new(vec![]),
        phase: AtomicUsize::new(0),
        live: AtomicUsize::new(0),
        max_live: AtomicUsize::new(0),
        reentered: AtomicBool::new(false),
        panic_at: Mutex::new(None),
        src_calls: Mutex::new(vec![]),
    })
}

fn lock<T>(m: &Mutex<T>) -> std::sync::MutexGuard<'_, T> {
    m.lock().unwrap_or_else(|e| e.into_inner())
}

/// small integer naming the current thread: 0 = the thread that called `reset` (the caller)
pub fn tid() -> usize {
    let id = std::thread::current().id();
    if let Some(l) = sched::logical_id(id) {
        return l;
    }
    let mut t = lock(&g().threads);
    let n = t.len();
    *t.entry(id).or_insert(n)
}

pub fn reset() {
    let gl = g();
    lock(&gl.log).clear();
    lock(&gl.threads).clear();
    lock(&gl.events).clear();
    lock(&gl.src_calls).clear();
    gl.phase.store(0, Ordering::SeqCst);
    gl.live.store(0, Ordering::SeqCst);
    gl.max_live.store(0, Ordering::SeqCst);
    gl.reentered.store(false, Ordering::SeqCst);
    *lock(&gl.panic_at) = None;
    COUNT_ONLY.store(false, Ordering::SeqCst);
    for c in STAGE_COUNTS.iter() {
        c.store(0, Ordering::SeqCst);
    }
    SRC_CTOR.store(0, Ordering::SeqCst);
    *lock(&RED_PANIC) = None;
    lock(&RUN_PHASES).clear();
    RED_COUNT.store(0, Ordering::SeqCst);
    RED_FIRED.store(false, Ordering::SeqCst);
    let _ = tid(); // caller = 0
}

pub fn set_phase(p: usize) {
    g().phase.store(p, Ordering::SeqCst);
}

/// count-only mode (very long sources): closure calls are counted per stage, not logged
pub static COUNT_ONLY: AtomicBool = AtomicBool::new(false);
pub static STAGE_COUNTS: [AtomicUsize; 8] = [
    AtomicUsize::new(0), AtomicUsize::new(0), AtomicUsize::new(0), AtomicUsize::new(0),
    AtomicUsize::new(0), AtomicUsize::new(0), AtomicUsize::new(0), AtomicUsize::new(0),
];
/// source elements the instrumented iterator yielded while the computation was being built
pub static SRC_CTOR: AtomicUsize = AtomicUsize::new(0);
/// injected panic of the reduce operator: (0, k) = its k-th call, (1, _) = any call on the calling
/// thread, (2, t) = a call whose right operand is >= t (a whole-chunk result in the designed cases)
pub static RED_PANIC: Mutex<Option<(u8, usize)>> = Mutex::new(None);
/// for every run of the runner: was the computation still being built (0) or inside the terminal (1)
pub static RUN_PHASES: Mutex<Vec<u8>> = Mutex::new(vec![]);
pub static RED_COUNT: AtomicUsize = AtomicUsize::new(0);
/// microseconds every evaluation of the first stage takes (so that all workers take part)
pub static DELAY_US: AtomicUsize = AtomicUsize::new(0);
pub static RED_FIRED: AtomicBool = AtomicBool::new(false);

pub fn log_call(stage: usize, arg: i64) {
    if COUNT_ONLY.load(Ordering::Relaxed) {
        let n = STAGE_COUNTS[stage.min(7)].fetch_add(1, Ordering::Relaxed);
        if n > 400_000_000 {
            panic!("runaway evaluation of a very long source");
        }
        return;
    }
    if stage == 2 {
        // the first stage of the chain is evaluated once per source element: a yield point
        sched::yield_at_element();
        let d = DELAY_US.load(Ordering::Relaxed);
        if d > 0 {
            std::thread::sleep(std::time::Duration::from_micros(d as u64));
        }
    }
    let gl = g();
    let t = tid();
    let phase = gl.phase.load(Ordering::SeqCst) as u8;
    lock(&gl.log).push(Rec { phase, thread: t, stage, arg });
    let p = *lock(&gl.panic_at);
    if let Some((s, a)) = p {
        if s == stage && a == arg {
            panic!("injected panic at stage {} arg {}", stage, arg);
        }
    }
}

pub fn install_sink() {
    verif::install(Arc::new(|e: Event| {
        let gl = g();
        match &e {
            Event::WorkerBegin { .. } => {
                let l = gl.live.fetch_add(1, Ordering::SeqCst) + 1;
                gl.max_live.fetch_max(l, Ordering::SeqCst);
            }
            Event::WorkerEnd => {
                gl.live.fetch_sub(1, Ordering::SeqCst);
            }
            Event::RunBegin { .. } => {
                lock(&RUN_PHASES).push(gl.phase.load(Ordering::SeqCst) as u8);
            }
            _ => {}
        }
        let t = tid();
        lock(&gl.events).push((t, e.clone()));
        sched::on_event(&e);
    }));
}

// ------------------------------------------------------------------ deterministic scheduler (K4)

/// Serialised execution: exactly one controlled thread runs at a time; the others are parked
/// at a yield point (spawner: before every has_more read; worker: at its begin hook and right
/// before evaluating each source element).  The pick list decides who runs next; a pick of a
/// thread that is not parked (not spawned yet, finished, retired) is skipped, as in the model.
pub mod sched {
    use super::Event;
    use std::collections::{BTreeSet, HashMap};
    use std::sync::{Condvar, Mutex};
    use std::thread::ThreadId;

    #[derive(Default)]
    pub struct State {
        pub enabled: bool,
        pub picks: Vec<usize>,
        pub pos: usize,
        pub running: Option<usize>,
        pub parked: BTreeSet<usize>,
        pub ids: HashMap<ThreadId, usize>,
        pub newborn: Option<ThreadId>,
        pub exhausted: bool,
        pub used: usize,
    }
    pub static ST: Mutex<Option<State>> = Mutex::new(None);
    pub static CV: Condvar = Condvar::new();

    fn with<R>(f: impl FnOnce(&mut State) -> R) -> Option<R> {
        let mut g = ST.lock().unwrap_or_else(|e| e.into_inner());
        g.as_mut().filter(|s| s.enabled).map(f)
    }

    pub fn logical_id(t: ThreadId) -> Option<usize> {
        let g = ST.lock().unwrap_or_else(|e| e.into_inner());
        match g.as_ref() {
            Some(s) if s.enabled => s.ids.get(&t).copied(),
            _ => None,
        }
    }

    pub fn start(picks: Vec<usize>) {
        let mut st = State::default();
        st.enabled = true;
        st.picks = picks;
        st.ids.insert(std::thread::current().id(), 0);
        st.running = Some(0);
        *ST.lock().unwrap_or_else(|e| e.into_inner()) = Some(st);
    }
    /// (schedule exhausted?, picks consumed)
    pub fn stop() -> (bool, usize) {
        let mut g = ST.lock().unwrap_or_else(|e| e.into_inner());
        let r = g.as_ref().map(|s| (s.exhausted, s.pos)).unwrap_or((false, 0));
        *g = None;
        r
    }

    /// hands the token to the next parked thread named by the pick list
    fn dispatch(s: &mut State) {
        loop {
            if s.parked.is_empty() {
                return; // nobody to run (yet): the next thread to park will call dispatch again
            }
            let p = if s.pos < s.picks.len() {
                let p = s.picks[s.pos];
                s.pos += 1;
                p
            } else {
                s.exhausted = true;
                *s.parked.iter().next().unwrap()
            };
            if s.parked.remove(&p) {
                s.running = Some(p);
                CV.notify_all();
                return;
            }
        }
    }

    fn park_and_wait(me: usize) {
        let mut g = ST.lock().unwrap_or_else(|e| e.into_inner());
        {
            let s = match g.as_mut() {
                Some(s) if s.enabled => s,
                _ => return,
            };
            s.parked.insert(me);
            if s.running == Some(me) || s.running.is_none() {
                s.running = None;
                dispatch(s);
            }
        }
        loop {
            match g.as_ref() {
                Some(s) if s.enabled => {
                    if s.running == Some(me) {
                        return;
                    }
                }
                _ => return,
            }
            g = CV.wait(g).unwrap_or_else(|e| e.into_inner());
        }
    }

    fn me() -> Option<usize> {
        logical_id(std::thread::current().id())
    }

    pub fn yield_at_element() {
        if let Some(id) = me() {
            if id >= 1 {
                park_and_wait(id);
            }
        }
    }

    pub fn on_event(e: &Event) {
        let enabled = with(|_| ()).is_some();
        if !enabled {
            return;
        }
        match e {
            Event::BeforeHasMore => {
                if let Some(0) = me() {
                    park_and_wait(0);
                }
            }
            Event::WorkerBegin { .. } => {
                // check in, wait to be named by the spawner, then wait to be picked
                let t = std::thread::current().id();
                let mut g = ST.lock().unwrap_or_else(|e| e.into_inner());
                if let Some(s) = g.as_mut() {
                    s.newborn = Some(t);
                }
                CV.notify_all();
                let my;
                loop {
                    match g.as_ref() {
                        Some(s) if s.enabled => {
                            if let Some(id) = s.ids.get(&t) {
                                my = *id;
                                break;
                            }
                        }
                        _ => return,
                    }
                    g = CV.wait(g).unwrap_or_else(|e| e.into_inner());
                }
                loop {
                    match g.as_ref() {
                        Some(s) if s.enabled => {
                            if s.running == Some(my) {
                                return;
                            }
                        }
                        _ => return,
                    }
                    g = CV.wait(g).unwrap_or_else(|e| e.into_inner());
                }
            }
            Event::Spawned { index } => {
                // the spawner (holding the token) waits for the new worker to check in and names it
                let mut g = ST.lock().unwrap_or_else(|e| e.into_inner());
                loop {
                    match g.as_mut() {
                        Some(s) if s.enabled => {
                            if let Some(t) = s.newborn.take() {
                                s.ids.insert(t, index + 1);
                                s.parked.insert(index + 1);
                                CV.notify_all();
                                return;
                            }
                        }
                        _ => return,
                    }
                    g = CV.wait(g).unwrap_or_else(|e| e.into_inner());
                }
            }
            Event::WorkerEnd | Event::SpawningFinished => {
                let mut g = ST.lock().unwrap_or_else(|e| e.into_inner());
                if let Some(s) = g.as_mut() {
                    if s.enabled {
                        s.running = None;
                        dispatch(s);
                    }
                }
            }
            _ => {}
        }
    }
}

// ------------------------------------------------------------------ closures

pub fn mk_map<T: AsI64>(id: usize, c: Cl) -> impl Fn(T) -> i64 + Clone + Send + Sync {
    move |x: T| {
        let x = x.v();
        log_call(id, x);
        run_map(c, x)
    }
}
pub fn mk_fil<T: AsI64>(id: usize, c: Cl) -> impl Fn(&T) -> bool + Clone + Send + Sync {
    move |x: &T| {
        let x = x.v();
        log_call(id, x);
        run_fil(c, x)
    }
}
pub fn mk_nfil<T: AsI64>(id: usize, c: Cl) -> impl Fn(&T) -> bool + Clone + Send + Sync {
    move |x: &T| {
        let x = x.v();
        log_call(id, x);
        run_fil(c, x)
    }
}
pub fn mk_flat<T: AsI64>(id: usize, c: Cl) -> impl Fn(T) -> Vec<i64> + Clone + Send + Sync {
    move |x: T| {
        let x = x.v();
        log_call(id, x);
        run_flat(c, x)
    }
}
pub fn mk_fm<T: AsI64>(id: usize, c: Cl) -> impl Fn(T) -> Option<i64> + Clone + Send + Sync {
    move |x: T| {
        let x = x.v();
        log_call(id, x);
        run_fm(c, x)
    }
}
pub fn mk_each<T: AsI64>(id: usize) -> impl Fn(T) + Clone + Send + Sync {
    move |x: T| {
        log_call(id, x.v());
    }
}
/// reduce operator on plain values
pub fn mk_red(id: usize, o: RedOp) -> impl Fn(i64, i64) -> i64 + Clone + Send + Sync {
    move |a, b| {
        note_red(id, b);
        run_red(o, a, b)
    }
}
/// reduce operator on borrowed / index items: only selection operators make sense
pub fn mk_red_sel<T: AsI64>(id: usize, o: RedOp) -> impl Fn(T, T) -> T + Clone + Send + Sync {
    move |a: T, b: T| {
        note_red(id, b.v());
        match o {
            RedOp::Max => {
                if b.v() > a.v() {
                    b
                } else {
                    a
                }
            }
            _ => {
                if b.v() < a.v() {
                    b
                } else {
                    a
                }
            }
        }
    }
}

pub static RED_THREADS: Mutex<Vec<usize>> = Mutex::new(vec![]);
fn note_red(_id: usize, right: i64) {
    let t = tid();
    {
        let mut r = lock(&RED_THREADS);
        if !r.contains(&t) {
            r.push(t);
        }
    }
    let k = RED_COUNT.fetch_add(1, Ordering::SeqCst);
    let p = *lock(&RED_PANIC);
    match p {
        Some((0, n)) if n == k => {
            RED_FIRED.store(true, Ordering::SeqCst);
            panic!("injected panic in the reduce operator (call {})", k);
        }
        Some((1, _)) if t == 0 => {
            RED_FIRED.store(true, Ordering::SeqCst);
            panic!("injected panic in the reduce operator on the calling thread");
        }
        Some((2, th)) if right >= th as i64 => {
            RED_FIRED.store(true, Ordering::SeqCst);
            panic!("injected panic in the reduce operator: right operand {} >= {}", right, th);
        }
        _ => {}
    }
}

/// wrapping sum with Default/Add as `Par::sum` needs them
#[derive(Clone, Copy, Default, PartialEq, Eq, PartialOrd, Ord, Debug)]
pub struct W64(pub i64);
impl std::ops::Add for W64 {
    type Output = W64;
    fn add(self, o: W64) -> W64 {
        W64(self.0.wrapping_add(o.0))
    }
}

// ------------------------------------------------------------------ instrumented source

pub struct Src {
    data: std::vec::IntoIter<i64>,
    exact: bool,
    inside: Arc<AtomicBool>,
    calls: usize,
}
impl Src {
    pub fn new(data: Vec<i64>, exact: bool) -> Self {
        Self { data: data.into_iter(), exact, inside: Arc::new(AtomicBool::new(false)), calls: 0 }
    }
}
impl Iterator for Src {
    type Item = i64;
    fn next(&mut self) -> Option<i64> {
        if self.inside.swap(true, Ordering::SeqCst) {
            g().reentered.store(true, Ordering::SeqCst);
        }
        let t = tid();
        lock(&g().src_calls).push((t, self.calls));
        self.calls += 1;
        let r = self.data.next();
        if r.is_some() && g().phase.load(Ordering::SeqCst) == 0 {
            SRC_CTOR.fetch_add(1, Ordering::SeqCst);
        }
        self.inside.store(false, Ordering::SeqCst);
        r
    }
    fn size_hint(&self) -> (usize, Option<usize>) {
        let n = self.data.len();
        if self.exact {
            (n, Some(n))
        } else {
            (0, None)
        }
    }
}

/// hides the length of an iterator
pub struct Unk<I>(pub I);
impl<I: Iterator> Iterator for Unk<I> {
    type Item = I::Item;
    fn next(&mut self) -> Option<I::Item> {
        self.0.next()
    }
    fn size_hint(&self) -> (usize, Option<usize>) {
        (0, None)
    }
}

/// 0, 1, 2, ... without end (a safety limit turns a runaway consumer into a panic)
pub static ENDLESS_CALLS: AtomicUsize = AtomicUsize::new(0);
pub struct Endless {
    next: i64,
}
impl Endless {
    pub fn new() -> Self {
        ENDLESS_CALLS.store(0, Ordering::SeqCst);
        Self { next: 0 }
    }
}
impl Iterator for Endless {
    type Item = i64;
    fn next(&mut self) -> Option<i64> {
        let n = ENDLESS_CALLS.fetch_add(1, Ordering::SeqCst);
        if n > 3_000_000 {
            panic!("runaway consumer of an endless source");
        }
        let x = self.next;
        self.next += 1;
        Some(x)
    }
    fn size_hint(&self) -> (usize, Option<usize>) {
        (usize::MAX, None)
    }
}

// ------------------------------------------------------------------ cases

#[derive(Clone, Debug)]
pub enum Term {
    Cv,
    Cs,
    Cx,
    Ci(char, Vec<i64>),
    Cnt,
    Fe,
    Red(RedOp),
    Sum,
    Min,
    Max,
    Fold(i64, RedOp),
    MinBy,
    MaxBy,
    MinKey(i64),
    MaxKey(i64),
    Find(Cl),
    FindIx(Cl),
    First,
    FirstIx,
    Any(Cl),
    All(Cl),
}

#[derive(Clone, Debug)]
pub struct Case {
    pub id: String,
    pub shape: String,
    pub input: Vec<i64>,
    pub cl: Vec<Cl>, // closures of the stages, in order
    pub nt1: usize,
    pub cs1: ChunkSize,
    pub nt2: usize,
    pub cs2: ChunkSize,
    pub term: Term,
    pub nstages: usize,
    pub panic_at: Option<(usize, i64)>,
    pub macro_sched: Option<Vec<usize>>,
    pub trail: bool,
    pub pid: usize,
    /// elements taken from a concurrent-iterator source before it is turned into a parallel iterator
    pub pre: usize,
    /// length of the very long range source (count-only mode)
    pub big: usize,
    /// injected panic of the reduce operator
    pub rpanic: Option<(u8, usize)>,
    pub delay_us: usize,
    /// order of the two setters before the stages (chunk_size first?) and after them (num_threads first?)
    pub lead_cn: bool,
    pub trail_nc: bool,
}

/// a deque whose ring buffer is wrapped: the first half sits at the end of the allocation
pub fn wrapped_deque(v: &[i64]) -> VecDeque<i64> {
    let mut d = VecDeque::with_capacity(v.len() + 3);
    let h = v.len() / 2;
    for x in v[..h].iter().rev() {
        d.push_front(*x);
    }
    for x in &v[h..] {
        d.push_back(*x);
    }
    d
}

/// the order in which the sequential iterator of a std collection yields (reported per case)
pub static EFFIN: Mutex<Option<Vec<i64>>> = Mutex::new(None);
pub fn set_effin(v: Vec<i64>) {
    *EFFIN.lock().unwrap_or_else(|e| e.into_inner()) = Some(v);
}
pub fn take_effin() -> String {
    match EFFIN.lock().unwrap_or_else(|e| e.into_inner()).take() {
        None => String::new(),
        Some(v) => format!(" effin={}", fmt_list(&v)),
    }
}

fn p64(s: &str) -> i64 {
    s.parse().unwrap()
}
fn filf(t: &[&str]) -> Cl {
    match t[0] {
        "F" => Cl::KeepMod(p64(t[1]), p64(t[2])),
        "Fl" => Cl::KeepLt(p64(t[1])),
        "Fg" => Cl::KeepGe(p64(t[1])),
        "Fa" => Cl::KeepAll,
        x => panic!("filf {}", x),
    }
}
fn chunk(kind: &str, n: usize) -> ChunkSize {
    match (kind, n) {
        (_, 0) => ChunkSize::Auto,
        ("C", n) => ChunkSize::Exact(NonZeroUsize::new(n).unwrap()),
        (_, n) => ChunkSize::Min(NonZeroUsize::new(n).unwrap()),
    }
}

pub fn parse_case(line: &str) -> Case {
    let mut f: HashMap<&str, &str> = HashMap::new();
    for tok in line.split_whitespace() {
        if let Some(i) = tok.find('=') {
            f.insert(&tok[..i], &tok[i + 1..]);
        }
    }
    let list = |s: &str| -> Vec<i64> {
        if s == "-" || s.is_empty() {
            vec![]
        } else {
            s.split(',').map(p64).collect()
        }
    };
    let ops: Vec<&str> = match f["ops"] {
        "-" => vec![],
        s => s.split(';').collect(),
    };
    // ops = N;C|Cm; stages...; C|Cm; N
    let mut cl = vec![];
    let mut sets: Vec<(String, usize)> = vec![];
    for o in &ops {
        let t: Vec<&str> = o.split(':').collect();
        match t[0] {
            "M" => cl.push(Cl::Affine(p64(t[1]), p64(t[2]))),
            "Mm" => cl.push(Cl::MapMod(p64(t[1]))),
            "F" | "Fl" | "Fg" | "Fa" => cl.push(filf(&t)),
            "X" => cl.push(Cl::Rep(t[1].parse().unwrap(), p64(t[2]))),
            "Xm" => cl.push(Cl::RepMod(p64(t[1]))),
            "O" => cl.push(Cl::SomeMod(p64(t[1]), p64(t[2]), p64(t[3]), p64(t[4]))),
            "N" | "C" | "Cm" => sets.push((t[0].to_string(), t[1].parse().unwrap())),
            x => panic!("op {}", x),
        }
    }
    assert!(sets.len() == 4 || sets.len() == 2, "expected two setters before the stages and none or two after them");
    let lead_cn = sets[0].0 != "N";
    let trail_nc = sets.len() == 4 && sets[2].0 == "N";
    let trail = sets.len() == 4;
    let mut nts: Vec<usize> = sets.iter().filter(|x| x.0 == "N").map(|x| x.1).collect();
    let mut css: Vec<(String, usize)> = sets.iter().filter(|x| x.0 != "N").cloned().collect();
    if !trail {
        nts.push(nts[0]);
        css.push(css[0].clone());
    }
    assert!(nts.len() == 2 && css.len() == 2, "expected num_threads and chunk_size setters in pairs");
    let n_ops = ops.len();
    let tt: Vec<&str> = f["term"].split(':').collect();
    let term = match tt[0] {
        "cv" => Term::Cv,
        "cs" => Term::Cs,
        "cx" => Term::Cx,
        "ci" => Term::Ci(
            tt[1].chars().next().unwrap(),
            if tt[2] == "-" { vec![] } else { tt[2].split('/').map(p64).collect() },
        ),
        "cnt" => Term::Cnt,
        "fe" => Term::Fe,
        "red" => Term::Red(match tt[1] {
            "add" => RedOp::Add,
            "xor" => RedOp::Xor,
            "min" => RedOp::Min,
            "max" => RedOp::Max,
            "sub" => RedOp::Sub,
            _ => RedOp::Poly,
        }),
        "sum" => Term::Sum,
        "min" => Term::Min,
        "max" => Term::Max,
        "fold" => Term::Fold(p64(tt[1]), match tt[2] {
            "add" => RedOp::Add,
            "xor" => RedOp::Xor,
            "min" => RedOp::Min,
            "max" => RedOp::Max,
            "sub" => RedOp::Sub,
            _ => RedOp::Poly,
        }),
        "minby" => Term::MinBy,
        "maxby" => Term::MaxBy,
        "minkey" => Term::MinKey(p64(tt[1])),
        "maxkey" => Term::MaxKey(p64(tt[1])),
        "find" => Term::Find(filf(&tt[1..])),
        "findix" => Term::FindIx(filf(&tt[1..])),
        "first" => Term::First,
        "firstix" => Term::FirstIx,
        "any" => Term::Any(filf(&tt[1..])),
        "all" => Term::All(filf(&tt[1..])),
        x => panic!("term {}", x),
    };
    let panic_at = f.get("panic").and_then(|s| {
        if *s == "-" {
            None
        } else {
            let t: Vec<&str> = s.split(':').collect();
            Some((t[0].parse().unwrap(), p64(t[1])))
        }
    });
    Case {
        id: f["id"].to_string(),
        shape: f["shape"].to_string(),
        input: list(f["in"]),
        nstages: cl.len(),
        cl,
        nt1: nts[0],
        cs1: chunk(&css[0].0, css[0].1),
        nt2: nts[1],
        cs2: chunk(&css[1].0, css[1].1),
        term,
        panic_at,
        trail,
        pid: n_ops,
        pre: f.get("pre").map(|x| x.parse().unwrap()).unwrap_or(0),
        big: f.get("big").map(|x| x.parse().unwrap()).unwrap_or(0),
        delay_us: f.get("delay").map(|x| x.parse().unwrap()).unwrap_or(0),
        lead_cn,
        trail_nc,
        rpanic: f.get("rpanic").and_then(|s| {
            if *s == "caller" {
                Some((1u8, 0usize))
            } else if let Some(k) = s.strip_prefix("n:") {
                Some((0u8, k.parse().unwrap()))
            } else if let Some(k) = s.strip_prefix("ge:") {
                Some((2u8, k.parse().unwrap()))
            } else {
                None
            }
        }),
        macro_sched: if f.get("macro").map(|x| *x == "1").unwrap_or(false) {
            Some(if f["sched"] == "-" {
                vec![]
            } else {
                // picks, optionally run-length encoded as <thread>x<count>
                let mut v: Vec<usize> = vec![];
                for tok in f["sched"].split(',') {
                    match tok.find('x') {
                        Some(i) => {
                            let t: usize = tok[..i].parse().unwrap();
                            let n: usize = tok[i + 1..].parse().unwrap();
                            v.extend(std::iter::repeat(t).take(n));
                        }
                        None => v.push(tok.parse().unwrap()),
                    }
                }
                v
            })
        } else {
            None
        },
    }
}

// ------------------------------------------------------------------ results

pub fn fmt_list(l: &[i64]) -> String {
    if l.is_empty() {
        "-".to_string()
    } else {
        l.iter().map(|x| x.to_string()).collect::<Vec<_>>().join(",")
    }
}
pub fn r_list(l: Vec<i64>) -> String {
    format!("L:{}", fmt_list(&l))
}
pub fn r_bag(mut l: Vec<i64>) -> String {
    l.sort();
    format!("B:{}", fmt_list(&l))
}
pub fn r_opt(o: Option<i64>) -> String {
    match o {
        None => "O:-".into(),
        Some(v) => format!("O:{}", v),
    }
}
pub fn r_optix(o: Option<(usize, i64)>) -> String {
    match o {
        None => "I:-".into(),
        Some((i, v)) => format!("I:{}:{}", i, v),
    }
}
pub fn r_bool(b: bool) -> String {
    format!("b:{}", b as u8)
}

pub fn params_str(p: orx_parallel::Params) -> String {
    let nt = match p.num_threads {
        orx_parallel::NumThreads::Auto => "A".to_string(),
        orx_parallel::NumThreads::Max(n) => format!("M{}", n),
    };
    let cs = match p.chunk_size {
        ChunkSize::Auto => "A".to_string(),
        ChunkSize::Exact(n) => format!("E{}", n),
        ChunkSize::Min(n) => format!("m{}", n),
    };
    format!("{}/{}|{}", nt, cs, p.is_sequential() as u8)
}

pub fn kind_of<T>(_: &T) -> String {
    let n = std::any::type_name::<T>();
    let head = n.split('<').next().unwrap_or(n);
    let last = head.rsplit("::").next().unwrap_or(head);
    last.trim_start_matches("Par").to_string()
}

/// everything observed during a case, as `key=value` tokens
pub fn observations() -> String {
    let gl = g();
    let log = lock(&gl.log).clone();
    let fmt_calls = |phase: u8| -> String {
        let v: Vec<String> = log
            .iter()
            .filter(|r| r.phase == phase)
            .map(|r| format!("{}:{}", r.stage, r.arg))
            .collect();
        if v.is_empty() {
            "-".into()
        } else {
            v.join(",")
        }
    };
    // sorted multiset of run-time calls
    let mut run: Vec<(usize, i64)> = log.iter().filter(|r| r.phase == 1).map(|r| (r.stage, r.arg)).collect();
    run.sort();
    let calls = if run.is_empty() {
        "-".to_string()
    } else {
        run.iter().map(|(s, a)| format!("{}:{}", s, a)).collect::<Vec<_>>().join(",")
    };
    // per-thread run-time call sequences (thread: calls in order)
    let mut per: std::collections::BTreeMap<usize, Vec<String>> = Default::default();
    for r in log.iter().filter(|r| r.phase == 1) {
        per.entry(r.thread).or_default().push(format!("{}:{}", r.stage, r.arg));
    }
    let tcalls = if per.is_empty() {
        "-".to_string()
    } else {
        per.iter().map(|(t, v)| format!("{}>{}", t, v.join(","))).collect::<Vec<_>>().join("|")
    };
    // distinct threads per stage closure (both phases)
    let mut th: std::collections::BTreeMap<usize, std::collections::BTreeSet<usize>> = Default::default();
    for r in log.iter() {
        th.entry(r.stage).or_default().insert(r.thread);
    }
    let threads = if th.is_empty() {
        "-".to_string()
    } else {
        th.iter()
            .map(|(s, t)| format!("{}:{}", s, t.iter().map(|x| x.to_string()).collect::<Vec<_>>().join("/")))
            .collect::<Vec<_>>()
            .join(",")
    };
    let ctor_threads: std::collections::BTreeSet<usize> =
        log.iter().filter(|r| r.phase == 0).map(|r| r.thread).collect();
    // hook events: runs with their settings, spawn counts and the chunk sizes handed to workers
    let ev = lock(&gl.events).clone();
    let mut runs: Vec<String> = vec![];
    let mut cur: Option<(String, usize, usize, bool, Option<usize>, Vec<usize>, usize, u8)> = None;
    for (_, e) in ev.iter() {
        match e {
            Event::RunBegin { kind, max_num_threads, chunk, exact, input_len } => {
                if let Some(c) = cur.take() {
                    runs.push(fmt_run(&c));
                }
                let phase = 0u8;
                cur = Some((kind.to_string(), *max_num_threads, *chunk, *exact, *input_len, vec![], 0, phase));
            }
            Event::WorkerBegin { chunk } => {
                if let Some(c) = cur.as_mut() {
                    c.5.push(*chunk);
                }
            }
            Event::Spawned { .. } => {
                if let Some(c) = cur.as_mut() {
                    c.6 += 1;
                }
            }
            _ => {}
        }
    }
    if let Some(c) = cur.take() {
        runs.push(fmt_run(&c));
    }
    let red = {
        let r = lock(&RED_THREADS);
        if r.is_empty() {
            "-".to_string()
        } else {
            r.iter().map(|x| x.to_string()).collect::<Vec<_>>().join("/")
        }
    };
    let src: Vec<(usize, usize)> = lock(&gl.src_calls).clone();
    // bursts: maximal runs of consecutive next() calls by the same thread
    let mut bursts: Vec<(usize, usize)> = vec![];
    for (t, _) in src.iter() {
        match bursts.last_mut() {
            Some((bt, n)) if *bt == *t => *n += 1,
            _ => bursts.push((*t, 1)),
        }
    }
    let bursts_s = if bursts.is_empty() {
        "-".to_string()
    } else {
        bursts.iter().map(|(t, n)| format!("{}x{}", t, n)).collect::<Vec<_>>().join(",")
    };
    format!(
        "clog={} calls={} tcalls={} threads={} ctor_threads={} runs={} maxlive={} redthreads={} reentered={} srccalls={} bursts={} endless={} srcctor={} redfired={} ncalls={} runphases={}",
        fmt_calls(0),
        calls,
        tcalls,
        threads,
        if ctor_threads.is_empty() { "-".to_string() } else { ctor_threads.iter().map(|x| x.to_string()).collect::<Vec<_>>().join("/") },
        if runs.is_empty() { "-".to_string() } else { runs.join("|") },
        gl.max_live.load(Ordering::SeqCst),
        red,
        gl.reentered.load(Ordering::SeqCst) as u8,
        src.len(),
        bursts_s,
        ENDLESS_CALLS.load(Ordering::SeqCst),
        SRC_CTOR.load(Ordering::SeqCst),
        RED_FIRED.load(Ordering::SeqCst) as u8,
        STAGE_COUNTS.iter().map(|c| c.load(Ordering::SeqCst).to_string()).collect::<Vec<_>>().join("/"),
        {
            let p = lock(&RUN_PHASES);
            if p.is_empty() { "-".to_string() } else { p.iter().map(|x| x.to_string()).collect::<Vec<_>>().join("/") }
        }
    )
}

fn fmt_run(c: &(String, usize, usize, bool, Option<usize>, Vec<usize>, usize, u8)) -> String {
    format!(
        "{}:max{}:chunk{}:{}:len{}:spawned{}:sizes{}",
        c.0,
        c.1,
        c.2,
        if c.3 { "exact" } else { "min" },
        match c.4 {
            None => "?".to_string(),
            Some(n) => n.to_string(),
        },
        c.6,
        if c.5.is_empty() { "-".to_string() } else { c.5.iter().map(|x| x.to_string()).collect::<Vec<_>>().join("/") }
    )
}

// ------------------------------------------------------------------ canary items (K6)

pub const MAGIC: u64 = 0x5eed_c0de_1234_abcd;
pub static TOK_TABLE: Mutex<Vec<u8>> = Mutex::new(vec![]);
pub static TOK_BAD: AtomicUsize = AtomicUsize::new(0);

/// an owned item whose creation and every drop are recorded
pub struct Tok {
    pub v: i64,
    id: usize,
    magic: u64,
    _heap: Box<i64>,
}
impl Tok {
    pub fn new(v: i64) -> Tok {
        let mut t = lock(&TOK_TABLE);
        let id = t.len();
        t.push(0);
        Tok { v, id, magic: MAGIC, _heap: Box::new(v) }
    }
}
impl Drop for Tok {
    fn drop(&mut self) {
        if self.magic != MAGIC {
            // dropping memory that never held a live Tok (or holds an already dropped one)
            TOK_BAD.fetch_add(1, Ordering::SeqCst);
            // keep the process alive: do not free the garbage box
            let b = std::mem::replace(&mut self._heap, Box::new(0));
            std::mem::forget(b);
            return;
        }
        let mut t = lock(&TOK_TABLE);
        if self.id < t.len() {
            t[self.id] = t[self.id].saturating_add(1);
        } else {
            TOK_BAD.fetch_add(1, Ordering::SeqCst);
        }
        self.magic = 0xdead_dead_dead_dead;
    }
}
impl AsI64 for Tok {
    fn v(&self) -> i64 {
        self.v
    }
}
pub fn tok_reset() {
    lock(&TOK_TABLE).clear();
    TOK_BAD.store(0, Ordering::SeqCst);
}
/// (created, dropped exactly once, leaked, dropped more than once, bad drops)
pub fn tok_report() -> String {
    let t = lock(&TOK_TABLE);
    let created = t.len();
    let once = t.iter().filter(|x| **x == 1).count();
    let leaked = t.iter().filter(|x| **x == 0).count();
    let multi = t.iter().filter(|x| **x > 1).count();
    format!("created={} once={} leaked={} multi={} bad={}", created, once, leaked, multi, TOK_BAD.load(Ordering::SeqCst))
}

pub fn tmk_map<T: AsI64>(id: usize, c: Cl) -> impl Fn(T) -> Tok + Clone + Send + Sync {
    move |x: T| {
        let v = x.v();
        log_call(id, v);
        Tok::new(run_map(c, v))
    }
}
pub fn tmk_flat<T: AsI64>(id: usize, c: Cl) -> impl Fn(T) -> Vec<Tok> + Clone + Send + Sync {
    move |x: T| {
        let v = x.v();
        log_call(id, v);
        run_flat(c, v).into_iter().map(Tok::new).collect()
    }
}
pub fn tmk_fm<T: AsI64>(id: usize, c: Cl) -> impl Fn(T) -> Option<Tok> + Clone + Send + Sync {
    move |x: T| {
        let v = x.v();
        log_call(id, v);
        run_fm(c, v).map(Tok::new)
    }
}
pub fn tmk_red(id: usize, o: RedOp) -> impl Fn(Tok, Tok) -> Tok + Clone + Send + Sync {
    move |a: Tok, b: Tok| {
        note_red(id, b.v);
        Tok::new(run_red(o, a.v, b.v))
    }
}

pub struct TokSrc {
    data: std::vec::IntoIter<Tok>,
    exact: bool,
}
impl TokSrc {
    pub fn new(data: Vec<i64>, exact: bool) -> Self {
        Self { data: data.into_iter().map(Tok::new).collect::<Vec<_>>().into_iter(), exact }
    }
}
impl Iterator for TokSrc {
    type Item = Tok;
    fn next(&mut self) -> Option<Tok> {
        self.data.next()
    }
    fn size_hint(&self) -> (usize, Option<usize>) {
        let n = self.data.len();
        if self.exact {
            (n, Some(n))
        } else {
            (0, None)
        }
    }
}
pub fn toks(v: &[i64]) -> Vec<Tok> {
    v.iter().map(|x| Tok::new(*x)).collect()
}
