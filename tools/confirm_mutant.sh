#!/bin/sh
# usage: confirm_mutant.sh <src dir with patch.diff demo.rs> <name>
# confirms in a scratch worktree: suite passes with the patch, demo fails with it and passes without.
SRC="$1"; NAME="$2"
WT=/tmp/confirm/$NAME
export CARGO_NET_OFFLINE=true CARGO_TARGET_DIR=/tmp/confirm/target
mkdir -p /tmp/confirm
git -C /repo worktree add --detach "$WT" HEAD >/dev/null 2>&1
cd "$WT" || exit 2
cp "$SRC/demo.rs" tests/demo_$NAME.rs
echo "== clean tree: demo" 
cargo test --offline --test demo_$NAME 2>&1 | grep -E "^test result|error(\[|:)" | head -5
CLEAN=$?
git apply "$SRC/patch.diff" || { echo "PATCH DOES NOT APPLY"; }
echo "== mutated: demo"
cargo test --offline --test demo_$NAME 2>&1 | grep -E "^test result|error(\[|:)" | head -5
echo "== mutated: whole suite (without the demo)"
rm tests/demo_$NAME.rs
cargo test --offline 2>&1 | grep -E "^test result" | awk '{p+=$4; f+=$6} END {print "suite passed=" p " failed=" f}'
cargo build --offline --features verif-hooks 2>&1 | tail -1
cd /; git -C /repo worktree remove --force "$WT"
