#!/bin/sh
# usage: matrix.sh [mutant dirs...]   -- runs every check against every seeded change.
# Uses VERIF_REPO (default /repo) as the repository to patch; prints one line per (mutant, check).
REPO="${VERIF_REPO:-/repo}"
cd "$(dirname "$0")/.."
OUT="${MATRIX_OUT:-work/matrix.txt}"
: > "$OUT"
LIST="$@"
[ -z "$LIST" ] && LIST=$(ls -d seeded/C*-m* | sort)
./bin/setup >/dev/null 2>&1
for d in $LIST; do
  m=$(basename $d)
  git -C "$REPO" checkout -- . 2>/dev/null; git -C "$REPO" clean -fdq src 2>/dev/null
  if ! git -C "$REPO" apply "$(pwd)/$d/patch.diff"; then echo "$m APPLY-FAILED" >> "$OUT"; continue; fi
  ALL="C01 C02 C03 C04 C05 C06 C07 C08 C09 C10 C11 C12 C13 C14 C15 C16"
  # MATRIX_OWN=1: only the check of the property the change was written against
  [ -n "$MATRIX_OWN" ] && ALL=$(echo $m | cut -c1-3)
  for p in $ALL; do
    o=$(timeout 1800 ./bin/check $p 2>&1); rc=$?
    v=$(echo "$o" | grep -c "^VIOLATION")
    nf=$(echo "$o" | grep "^VIOLATION" | grep -c "no-failing-input-found")
    echo "$m $p rc=$rc violations=$v no_input=$nf" >> "$OUT"
  done
  git -C "$REPO" checkout -- . && git -C "$REPO" clean -fdq src
done
echo done >> "$OUT"
