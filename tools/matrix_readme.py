#!/usr/bin/env python3
"""writes seeded/README.md from seeded/matrix/*.txt (output of tools/matrix.sh) and the meta.json files"""
import collections, glob, json, os, subprocess
root = os.path.dirname(os.path.dirname(os.path.abspath(__file__)))
rows = []
own_runs = collections.OrderedDict()
for f in sorted(glob.glob(os.path.join(root, "seeded/matrix/*.txt"))):
    base = os.path.basename(f)
    if base.startswith("own_"):
        # own-property re-runs: own_<label>_partN.txt
        label = base[4:].rsplit("_part", 1)[0]
        for l in open(f):
            r = l.split()
            if len(r) >= 5 and r[2].startswith("rc="):
                own_runs.setdefault(label, {})[r[0]] = (int(r[3].split("=")[1]), int(r[4].split("=")[1]))
        continue
    for l in open(f):
        r = l.split()
        if len(r) >= 5 and r[2].startswith("rc="):
            rows.append(r)
by = collections.OrderedDict()
for r in rows:
    m, p = r[0], r[1]
    v = int(r[3].split("=")[1]); ni = int(r[4].split("=")[1])
    by.setdefault(m, {})[p] = (v, ni)
only_own = set()
for label, d in own_runs.items():
    for m, v in d.items():
        if m not in by or m in only_own:
            by.setdefault(m, {})[m[:3]] = v
            only_own.add(m)
out = ["# Seeded changes and the checks that catch them", "",
       "Each directory `Cxx-mN/` holds one change to orx-parallel that breaks property `Cxx` while the crate still",
       "compiles and its 184 tests + 55 doctests still pass: `patch.diff`, `demo.rs` (an integration test that fails with the",
       "change and passes without), `agent_notes.md`, `meta.json` (what it changes, what it needs in order to manifest, and",
       "my own confirmation run). They were written by independent sub-agents that saw only the property text and a scratch",
       "worktree of the repository. None of them is ever committed to `/repo`.", "",
       "Matrix: every quick check against every change (`tools/matrix.sh`, run on a snapshot of `/verif` with its own copy of",
       "the repository). `own` = the check of the property the change was written against; `*` = reported with",
       "`no-failing-input-found` (a broken correspondence without a run that fails the property's own oracle).", "",
       "| change | what it changes | needs | own check | other checks that fire |", "|---|---|---|---|---|"]
hit = 0
for m in sorted(by, key=lambda x: (x[:3], int(x.split("-m")[1]))):
    d = by[m]
    own = m[:3]
    meta = {}
    mp = os.path.join(root, "seeded", m, "meta.json")
    if os.path.exists(mp):
        meta = json.load(open(mp))
    o = d.get(own, (0, 0))
    fired = [p + ("*" if d[p][1] and d[p][1] == d[p][0] else "") for p in sorted(d) if d[p][0] > 0 and p != own]
    hit += o[0] > 0
    out.append("| %s | %s | %s | %s | %s |" % (m, meta.get("what_it_changes", "").replace("|", "/")[:260],
                                             meta.get("needs_in_order_to_manifest", "").replace("|", "/")[:200],
                                             ("fires" + ("*" if o[1] and o[1] == o[0] else "")) if o[0] > 0 else "**silent**",
                                             "(own check only, see below)" if m in only_own else " ".join(fired)))
out += ["", "Own-property check fires for %d of %d changes in the matrix files." % (hit, len(by)), ""]
if own_runs:
    out += ["## Own-property re-runs", "",
            "Every change against the quick check of its own property only (`MATRIX_OWN=1 tools/matrix.sh`), at later commits of",
            "`/verif` and with other seeds (the label names commit and seed).", "",
            "| run | changes | own check fires | silent |", "|---|---|---|---|"]
    for label, d in own_runs.items():
        sil = sorted(m for m in d if d[m][0] == 0)
        out.append("| %s | %d | %d | %s |" % (label, len(d), sum(1 for m in d if d[m][0] > 0), ", ".join(sil) if sil else "-"))
    out.append("")
covered = set(by)
for d in own_runs.values():
    covered |= set(d)
missing = sorted(set(os.path.basename(os.path.dirname(p)) for p in glob.glob(os.path.join(root, "seeded/C*-m*/meta.json"))) - covered)
if missing:
    out += ["Not in the matrix files (checked individually with `tools/try_check.sh`, see DESIGN.md section 10): " + ", ".join(missing), ""]
open(os.path.join(root, "seeded/README.md"), "w").write("\n".join(out))
print("own hits %d/%d; not in matrix: %s" % (hit, len(by), missing))
