#!/usr/bin/env python3
"""usage: adopt.py <src dir> <name e.g. C11-m3> <what> <needs>
confirms a candidate change (tools/confirm_mutant.sh) and stores it under seeded/<name>/ with meta.json"""
import json, os, re, shutil, subprocess, sys
src, name, what, needs = sys.argv[1:5]
root = os.path.dirname(os.path.dirname(os.path.abspath(__file__)))
dst = os.path.join(root, "seeded", name)
os.makedirs(dst, exist_ok=True)
for f, g in (("patch.diff", "patch.diff"), ("demo.rs", "demo.rs"), ("notes.md", "agent_notes.md")):
    if os.path.exists(os.path.join(src, f)):
        shutil.copy(os.path.join(src, f), os.path.join(dst, g))
out = subprocess.run([os.path.join(root, "tools/confirm_mutant.sh"), dst, name.replace("-", "_")],
                     stdout=subprocess.PIPE, stderr=subprocess.STDOUT, text=True).stdout
print(out)
parts = re.split(r"== [^\n]*\n", out)
def verdict(t):
    if "error[" in t or "could not compile" in t: return "does not compile"
    oks = re.findall(r"test result: (\w+)\.", t)
    if not oks: return "no result"
    return "passes" if all(o == "ok" for o in oks) else "fails"
clean, mut, suite = parts[1], parts[2], parts[3]
m = re.search(r"suite passed=(\d+) failed=(\d+)", suite)
head = subprocess.run(["git", "-C", "/repo", "rev-parse", "--short", "HEAD"], stdout=subprocess.PIPE, text=True).stdout.strip()
meta = {"property": name.split("-")[0], "what_it_changes": what, "needs_in_order_to_manifest": needs,
        "source": "independent sub-agent working from the property text only, in its own worktree under /tmp (nothing from /verif)",
        "confirmed_by_me": {"command": "tools/confirm_mutant.sh (scratch worktree of /repo HEAD %s under /tmp/confirm, CARGO_TARGET_DIR outside /repo and /verif)" % head,
                            "demo_on_clean_tree": verdict(clean), "demo_with_patch": verdict(mut),
                            "existing_suite_with_patch": "%s passed, %s failed (184 integration tests + 55 doctests); verif-hooks build: %s" % (
                                m.group(1) if m else "?", m.group(2) if m else "?", suite.strip().split("\n")[-1].strip()[:80])},
        "files": ["patch.diff", "demo.rs (drop into tests/)", "agent_notes.md"]}
ok = meta["confirmed_by_me"]["demo_on_clean_tree"] == "passes" and meta["confirmed_by_me"]["demo_with_patch"] == "fails" and m and m.group(2) == "0" and m.group(1) == "239"
meta["kept"] = bool(ok)
json.dump(meta, open(os.path.join(dst, "meta.json"), "w"), indent=1)
print("KEPT" if ok else "NOT CONFIRMED", name)
