#!/bin/sh
# usage: dbg.sh <file.v> <line> : feeds the first <line> lines to coqtop and shows the goals there
cd /verif/coq
( head -n "$2" "$1"; echo "Show."; ) | (ulimit -v 8000000; timeout 120 coqtop -q -w -notation-overridden,-deprecated-hint-without-locality,-deprecated-instance-without-locality -Q theories OrxPar 2>&1) | tail -n "${3:-40}"
