#!/bin/sh
# usage: try_k3.sh <patch.diff> : apply to /repo, run K3 quick, revert
set -e
git -C /repo apply "$1"
cd /verif/lib
python3 -c "
import k3, json
r = k3.run_k3('quick', 1)
print('errors', r['errors'])
print('mismatch', {k: len(v) for k,v in r['mismatch'].items()}, 'oracle', {k: len(v) for k,v in r['oracle'].items()})
for k,v in list(r['mismatch'].items())[:2]: print(k, json.dumps(v[0])[:600])
for k,v in list(r['oracle'].items())[:2]: print(k, json.dumps(v[0])[:600])
" || true
git -C /repo checkout -- .
