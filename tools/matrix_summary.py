#!/usr/bin/env python3
"""summarises a matrix file: per seeded change, whether its own property's check fires and which others do"""
import collections, sys
rows=[l.split() for l in open(sys.argv[1]) if l.strip() and l.strip()!='done']
by=collections.OrderedDict()
for r in rows:
    if len(r)<5: print(r); continue
    m,p=r[0],r[1]; v=int(r[3].split('=')[1]); ni=int(r[4].split('=')[1])
    by.setdefault(m,{})[p]=(v,ni)
hit=0
for m,d in by.items():
    own=m[:3]
    fired=[p+('*' if d[p][1] and d[p][1]==d[p][0] else '') for p in d if d[p][0]>0]
    o = d.get(own,(0,0))[0]>0
    hit += o
    print("%-7s %2d checks  own:%s  fires: %s" % (m, len(d), 'HIT ' if o else 'miss', ' '.join(fired)))
print("own-property check fires for %d of %d" % (hit, len(by)))
