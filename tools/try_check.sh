#!/bin/sh
# usage: try_check.sh <patch.diff> <Cxx> [more ids] : apply to $VERIF_REPO (/repo), run the quick checks, revert
REPO="${VERIF_REPO:-/repo}"
P=$(readlink -f "$1"); shift
git -C "$REPO" apply "$P" || exit 2
cd "$(dirname "$0")/.."
for id in "$@"; do
  o=$(timeout 1800 ./bin/check $id 2>&1); rc=$?
  echo "== $id rc=$rc"
  echo "$o" | grep "^VIOLATION\|^KNOWN" | cut -c1-300
done
git -C "$REPO" checkout -- . && git -C "$REPO" clean -fdq src
