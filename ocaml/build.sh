#!/bin/sh
# builds the model driver from the extracted model (coq/model.ml) and driver.ml
set -e
cd "$(dirname "$0")"
mkdir -p _build
cp ../coq/model.ml ../coq/model.mli driver.ml _build/
cd _build
ocamlfind ocamlopt -O3 -w -a -c model.mli 2>/dev/null || ocamlfind ocamlopt -w -a -c model.mli
ocamlfind ocamlopt -w -a -c model.ml
ocamlfind ocamlopt -w -a -c driver.ml
ocamlfind ocamlopt -w -a -o ../driver model.cmx driver.cmx
