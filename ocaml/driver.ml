(* Driver for the extracted Coq model: reads case lines on stdin, prints the model's
   answers in the same line format as the Rust harness. Hand-written glue only:
   decimal <-> N/Z conversion, tokenising, printing. *)
open Model

(* ---- decimal conversion through Coq's Decimal.uint ---- *)
let uint_of_string (s : string) : uint =
  let r = ref Nil in
  for i = String.length s - 1 downto 0 do
    r := (match s.[i] with
      | '0' -> D0 !r | '1' -> D1 !r | '2' -> D2 !r | '3' -> D3 !r | '4' -> D4 !r
      | '5' -> D5 !r | '6' -> D6 !r | '7' -> D7 !r | '8' -> D8 !r | '9' -> D9 !r
      | c -> failwith (Printf.sprintf "bad digit %c in %s" c s))
  done; !r

let string_of_uint (u : uint) : string =
  let b = Buffer.create 20 in
  let rec go = function
    | Nil -> ()
    | D0 d -> Buffer.add_char b '0'; go d | D1 d -> Buffer.add_char b '1'; go d
    | D2 d -> Buffer.add_char b '2'; go d | D3 d -> Buffer.add_char b '3'; go d
    | D4 d -> Buffer.add_char b '4'; go d | D5 d -> Buffer.add_char b '5'; go d
    | D6 d -> Buffer.add_char b '6'; go d | D7 d -> Buffer.add_char b '7'; go d
    | D8 d -> Buffer.add_char b '8'; go d | D9 d -> Buffer.add_char b '9'; go d in
  go u;
  if Buffer.length b = 0 then "0" else Buffer.contents b

let n_of_string s = n_of_uint (uint_of_string s)
let string_of_n n = string_of_uint (n_to_uint n)
let z_of_string s =
  if String.length s > 0 && s.[0] = '-'
  then z_of_int (Neg (uint_of_string (String.sub s 1 (String.length s - 1))))
  else z_of_int (Pos (uint_of_string s))
let string_of_z z =
  match z_to_int z with
  | Pos u -> string_of_uint u
  | Neg u -> "-" ^ string_of_uint u

let rec nat_of_int (i : int) : nat = if i <= 0 then O else S (nat_of_int (i - 1))
let rec int_of_nat (n : nat) : int = match n with O -> 0 | S m -> 1 + int_of_nat m

let opt_n s = if s = "-" then None else Some (n_of_string s)
let split_on c s = if s = "" || s = "-" then [] else String.split_on_char c s

(* ---- K1: settings ---- *)
let k1_line (line : string) : string =
  match String.split_on_char ' ' (String.trim line) with
  | [nt; csk; c; len; avail; task; ns; hm] ->
    let params = { p_threads = nt_of_usize (n_of_string nt);
                   p_chunk = (match csk with
                     | "a" -> CSAuto
                     | "m" -> CSMin (n_of_string c)
                     | "e" -> CSExact (n_of_string c)
                     | _ -> failwith "cskind") } in
    let task = (match task with "0" -> TCollect | "1" -> TEarlyReturn | _ -> TReduce) in
    (match runner_new params task (opt_n len) (n_of_string avail) with
     | None -> "panic"
     | Some r ->
       (match do_spawn r (n_of_string ns) (opt_n hm), next_chunk_size r (n_of_string ns) (opt_n hm) with
        | Some ds, Some nc ->
          Printf.sprintf "%s %s %d %d %s"
            (string_of_n (r_max_threads r)) (string_of_n (r_inner r.r_chunk))
            (if r_is_exact r.r_chunk then 1 else 0) (if ds then 1 else 0)
            (match nc with None -> "-" | Some c -> string_of_n c)
        | _ -> "panic"))
  | _ -> failwith ("k1: bad line: " ^ line)

let run_lines f =
  try
    while true do
      let line = input_line stdin in
      if String.trim line <> "" then print_endline (f line)
    done
  with End_of_file -> ()

let () =
  match Sys.argv with
  | [| _; "k1" |] -> run_lines k1_line
  | _ -> prerr_endline "usage: driver (k1|kp)"; exit 2
