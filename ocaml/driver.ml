(* Driver for the extracted Coq model: reads case lines on stdin, prints the model's
   answers in the same line format as the Rust harness. Hand-written glue only:
   decimal <-> N/Z conversion, tokenising, printing. *)
open Model

(* ---- decimal conversion through Coq's Decimal.uint ---- *)
let uint_of_string (s : string) : uint =
  let r = ref Nil in
  for i = String.length s - 1 downto 0 do
    r := (match s.[i] with
      | '0' -> D0 !r | '1' -> D1 !r | '2' -> D2 !r | '3' -> D3 !r | '4' -> D4 !r
      | '5' -> D5 !r | '6' -> D6 !r | '7' -> D7 !r | '8' -> D8 !r | '9' -> D9 !r
      | c -> failwith (Printf.sprintf "bad digit %c in %s" c s))
  done; !r

let string_of_uint (u : uint) : string =
  let b = Buffer.create 20 in
  let rec go = function
    | Nil -> ()
    | D0 d -> Buffer.add_char b '0'; go d | D1 d -> Buffer.add_char b '1'; go d
    | D2 d -> Buffer.add_char b '2'; go d | D3 d -> Buffer.add_char b '3'; go d
    | D4 d -> Buffer.add_char b '4'; go d | D5 d -> Buffer.add_char b '5'; go d
    | D6 d -> Buffer.add_char b '6'; go d | D7 d -> Buffer.add_char b '7'; go d
    | D8 d -> Buffer.add_char b '8'; go d | D9 d -> Buffer.add_char b '9'; go d in
  go u;
  if Buffer.length b = 0 then "0" else Buffer.contents b

let n_of_string s = n_of_uint (uint_of_string s)
let string_of_n n = string_of_uint (n_to_uint n)
let z_of_string s =
  if String.length s > 0 && s.[0] = '-'
  then z_of_int (Neg (uint_of_string (String.sub s 1 (String.length s - 1))))
  else z_of_int (Pos (uint_of_string s))
let string_of_z z =
  match z_to_int z with
  | Pos u -> string_of_uint u
  | Neg u -> "-" ^ string_of_uint u

let rec nat_of_int (i : int) : nat = if i <= 0 then O else S (nat_of_int (i - 1))
let rec int_of_nat (n : nat) : int = match n with O -> 0 | S m -> 1 + int_of_nat m

let opt_n s = if s = "-" then None else Some (n_of_string s)
let split_on c s = if s = "" || s = "-" then [] else String.split_on_char c s

(* ---- K1: settings ---- *)
let k1_line (line : string) : string =
  match String.split_on_char ' ' (String.trim line) with
  | [nt; csk; c; len; avail; task; ns; hm] ->
    let params = { p_threads = nt_of_usize (n_of_string nt);
                   p_chunk = (match csk with
                     | "a" -> CSAuto
                     | "m" -> CSMin (n_of_string c)
                     | "e" -> CSExact (n_of_string c)
                     | _ -> failwith "cskind") } in
    let task = (match task with "0" -> TCollect | "1" -> TEarlyReturn | _ -> TReduce) in
    (match runner_new params task (opt_n len) (n_of_string avail) with
     | None -> "panic"
     | Some r ->
       (match do_spawn r (n_of_string ns) (opt_n hm), next_chunk_size r (n_of_string ns) (opt_n hm) with
        | Some ds, Some nc ->
          Printf.sprintf "%s %s %d %d %s"
            (string_of_n (r_max_threads r)) (string_of_n (r_inner r.r_chunk))
            (if r_is_exact r.r_chunk then 1 else 0) (if ds then 1 else 0)
            (match nc with None -> "-" | Some c -> string_of_n c)
        | _ -> "panic"))
  | _ -> failwith ("k1: bad line: " ^ line)


(* ---- K3: whole cases ---- *)
let fields line =
  List.filter_map (fun tok ->
    match String.index_opt tok '=' with
    | Some i -> Some (String.sub tok 0 i, String.sub tok (i+1) (String.length tok - i - 1))
    | None -> None) (String.split_on_char ' ' (String.trim line))
let get fs k = try List.assoc k fs with Not_found -> failwith ("missing field " ^ k)
let zlist s = List.map z_of_string (split_on ',' s)
let natlist s =
  List.concat_map (fun x ->
      match String.index_opt x 'x' with
      | Some i ->
        let t = nat_of_int (int_of_string (String.sub x 0 i)) in
        let n = int_of_string (String.sub x (i + 1) (String.length x - i - 1)) in
        List.init n (fun _ -> t)
      | None -> [nat_of_int (int_of_string x)]) (split_on ',' s)

let filf_of = function
  | ["F"; m; r] -> KeepMod (z_of_string m, z_of_string r)
  | ["Fl"; t] -> KeepLt (z_of_string t)
  | ["Fg"; t] -> KeepGe (z_of_string t)
  | ["Fa"] -> KeepAll
  | l -> failwith ("filf: " ^ String.concat ":" l)

let dop_of (s : string) : dop =
  match String.split_on_char ':' s with
  | ["M"; a; b] -> DMap (Affine (z_of_string a, z_of_string b))
  | ["Mm"; m] -> DMap (MapMod (z_of_string m))
  | ("F" | "Fl" | "Fg" | "Fa") :: _ as l -> DFilter (filf_of l)
  | ["X"; k; d] -> DFlatMap (Rep (nat_of_int (int_of_string k), z_of_string d))
  | ["Xm"; m] -> DFlatMap (RepMod (z_of_string m))
  | ["O"; m; r; a; b] -> DFilterMap (SomeMod (z_of_string m, z_of_string r, z_of_string a, z_of_string b))
  | ["N"; n] -> DNumThreads (n_of_string n)
  | ["C"; n] -> DChunkSize (n_of_string n)
  | ["Cm"; n] -> DChunkMin (n_of_string n)
  | _ -> failwith ("op: " ^ s)

let redop_of = function
  | "add" -> RAdd | "xor" -> RXor | "min" -> RMinOp | "max" -> RMaxOp | "sub" -> RSub | "poly" -> RPoly
  | s -> failwith ("redop " ^ s)

let term_of (s : string) : terminal =
  match String.split_on_char ':' s with
  | ["cv"] -> TCollectVec | ["cs"] -> TCollectSplit | ["cx"] -> TCollectX
  | ["ci"; t; old] ->
    let t = (match t with "v" -> TVec | "s" -> TSplit | _ -> TFixed) in
    TCollectInto (t, List.map z_of_string (split_on '/' old))
  | ["cnt"] -> TCount | ["fe"] -> TForEach
  | ["red"; o] -> TReduceT (redop_of o)
  | ["sum"] -> TSum | ["min"] -> TMinT | ["max"] -> TMaxT
  | ["fold"; id; o] -> TFold (z_of_string id, redop_of o)
  | ["minby"] -> TMinBy | ["maxby"] -> TMaxBy
  | ["minkey"; m] -> TMinKey (z_of_string m) | ["maxkey"; m] -> TMaxKey (z_of_string m)
  | "find" :: q -> TFind (filf_of q) | "findix" :: q -> TFindIx (filf_of q)
  | ["first"] -> TFirst | ["firstix"] -> TFirstIx
  | "any" :: q -> TAny (filf_of q) | "all" :: q -> TAll (filf_of q)
  | _ -> failwith ("term: " ^ s)

let str_list f l = if l = [] then "-" else String.concat "," (List.map f l)
let zcmp a b = match z_to_int a, z_to_int b with
  | Neg _, Pos _ -> -1 | Pos _, Neg _ -> 1
  | _ -> (* compare by value through string length then lexicographic *)
    let sa = string_of_z a and sb = string_of_z b in
    let neg = String.length sa > 0 && sa.[0] = '-' in
    let c = compare (String.length sa, sa) (String.length sb, sb) in
    if neg then -c else c
let call_str (i, a) = Printf.sprintf "%d:%s" (int_of_nat i) (string_of_z a)
let call_cmp (i, a) (j, b) = let c = compare (int_of_nat i) (int_of_nat j) in if c <> 0 then c else zcmp a b

let res_str = function
  | RList l -> "L:" ^ str_list string_of_z l
  | RBag l -> "B:" ^ str_list string_of_z (List.sort zcmp l)
  | RCount n -> "N:" ^ string_of_int (int_of_nat n)
  | ROpt None -> "O:-" | ROpt (Some v) -> "O:" ^ string_of_z v
  | ROptIx None -> "I:-" | ROptIx (Some (i, v)) -> Printf.sprintf "I:%d:%s" (int_of_nat i) (string_of_z v)
  | RBool true -> "b:1" | RBool false -> "b:0"
  | RUnit -> "U" | RPanic -> "P"

let params_str p =
  (match p.p_threads with NTAuto -> "A" | NTMax n -> "M" ^ string_of_n n) ^ "/" ^
  (match p.p_chunk with CSAuto -> "A" | CSExact n -> "E" ^ string_of_n n | CSMin n -> "m" ^ string_of_n n)

let kind_str = function
  | KEmpty -> "Empty" | KMap -> "Map" | KFilter -> "Filter" | KMapFilter -> "MapFilter"
  | KFilterMap -> "FilterMap" | KFilterMapFilter -> "FilterMapFilter"
  | KFlatMap -> "FlatMap" | KFlatMapFilter -> "FlatMapFilter"

let tk_of = function DMap _ -> Some TMap | DFilter _ -> Some TFilter | DFlatMap _ -> Some TFlatMap
  | DFilterMap _ -> Some TFilterMap | _ -> None
let tk_str = function TMap -> "map" | TFilter -> "filter" | TFlatMap -> "flat_map" | TFilterMap -> "filter_map"
(* the eager sites a chain of operations passes, by the model's transition table *)
let sites_of (ops : dop list) (foreach : bool) : string list =
  let rec go k acc = function
    | [] -> (k, List.rev acc)
    | o :: r -> (match tk_of o with
        | None -> go k acc r
        | Some t ->
          let acc = if eager k t then (kind_str k ^ "." ^ tk_str t) :: acc else acc in
          go (next_kind k t) acc r) in
  let (k, acc) = go KEmpty [] ops in
  if foreach && eager k TMap then acc @ [kind_str k ^ ".map(for_each)"] else acc

let k3_line (line : string) : string =
  let fs = fields line in
  let c = { c_known = (get fs "known" = "1");
            c_input = zlist (get fs "in");
            c_ops = List.map dop_of (split_on ';' (get fs "ops"));
            c_term = term_of (get fs "term");
            c_avail = n_of_string (get fs "avail");
            c_sched = natlist (get fs "sched");
            c_fuel = nat_of_int (int_of_string (get fs "fuel"));
            c_panic = (match (try List.assoc "panic" fs with Not_found -> "-") with
                | "-" -> None
                | s -> (match String.split_on_char ':' s with
                    | [st; a] -> Some (nat_of_int (int_of_string st), z_of_string a)
                    | _ -> failwith "panic"));
            c_macro = ((try List.assoc "macro" fs with Not_found -> "0") = "1");
            c_iter = (let sh = (try List.assoc "shape" fs with Not_found -> "") in
                      List.exists (fun pre -> String.length sh >= String.length pre && String.sub sh 0 (String.length pre) = pre)
                        ["iterx_"; "iteru_"; "deque_"; "endless_"; "dequeref_"; "btset_"; "hashset_"; "llist_"; "bheap_"; "preiterx_"; "preiteru_"]);
            c_pre = nat_of_int (int_of_string (try List.assoc "pre" fs with Not_found -> "0")) } in
  let o = exec c in
  (* parameters as they stand after the stages, before the trailing setters *)
  let rec drop_last2 = function [] | [_] | [_; _] -> [] | x :: r -> x :: drop_last2 r in
  let is_setter = (function DNumThreads _ | DChunkSize _ | DChunkMin _ -> true | _ -> false) in
  let has_trail = (match List.rev c.c_ops with a :: b :: _ :: _ :: _ -> is_setter a && is_setter b | _ -> false) in
  let omid = exec { c with c_ops = (if has_trail then drop_last2 c.c_ops else c.c_ops); c_term = TCount; c_sched = []; c_fuel = O; c_macro = false; c_panic = None } in
  let all_calls = List.sort call_cmp (List.concat o.o_rlog) in
  let seqlog = if o.o_sequential then str_list call_str (List.concat o.o_rlog) else "-" in
  let sites = sites_of c.c_ops (match c.c_term with TForEach -> true | _ -> false) in
  let seen_s = if o.o_seen = [] then "-" else String.concat "|" (List.map (fun l ->
      if l = [] then "-" else String.concat "," (List.map (fun n -> string_of_int (int_of_nat n)) l)) o.o_seen) in
  let runner_s = (match o.o_runner with
      | None -> "-"
      | Some r -> Printf.sprintf "max%s:chunk%s:%s" (string_of_n r.r_max_threads) (string_of_n (r_inner r.r_chunk))
                    (match r.r_chunk with RExact _ -> "exact" | RMin _ -> "min")) in
  let rlen_s = (match o.o_runner with
      | Some r -> (match r.r_input_len with Some l -> string_of_n l | None -> "?")
      | None -> "-") in
  Printf.sprintf "id=%s rlen=%s runner=%s complete=%d seen=%s pmid=%s sites=%s seqlog=%s res=%s params=%s kind=%s seq=%d consumed=%d clog=%s calls=%s spawned=%d chunks=%s pulls=%s"
    (get fs "id") rlen_s runner_s (if o.o_complete then 1 else 0) seen_s (params_str omid.o_params) (if sites = [] then "-" else String.concat "," sites) seqlog (res_str o.o_result) (params_str o.o_params) (kind_str o.o_kind)
    (if o.o_sequential then 1 else 0) (int_of_nat o.o_consumed)
    (str_list call_str o.o_clog) (str_list call_str all_calls)
    (int_of_nat o.o_spawned) (str_list (fun n -> string_of_int (int_of_nat n)) o.o_chunks)
    (if o.o_pulls = [] then "-" else String.concat "|" (List.map (fun pl ->
        if pl = [] then "-" else String.concat "," (List.map (fun (b, k) -> Printf.sprintf "%d+%d" (int_of_nat b) (int_of_nat k)) pl)) o.o_pulls))

let run_lines f =
  try
    while true do
      let line = input_line stdin in
      if String.trim line <> "" then print_endline (f line)
    done
  with End_of_file -> ()

let () =
  match Sys.argv with
  | [| _; "k1" |] -> run_lines k1_line
  | [| _; "k3" |] -> run_lines k3_line
  | _ -> prerr_endline "usage: driver (k1|kp)"; exit 2
