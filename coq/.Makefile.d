theories/Base.vo theories/Base.glob theories/Base.v.beautified theories/Base.required_vo: theories/Base.v 
theories/Base.vio: theories/Base.v 
theories/Base.vos theories/Base.vok theories/Base.required_vos: theories/Base.v 
theories/Settings.vo theories/Settings.glob theories/Settings.v.beautified theories/Settings.required_vo: theories/Settings.v theories/Base.vo
theories/Settings.vio: theories/Settings.v theories/Base.vio
theories/Settings.vos theories/Settings.vok theories/Settings.required_vos: theories/Settings.v theories/Base.vos
theories/SettingsP.vo theories/SettingsP.glob theories/SettingsP.v.beautified theories/SettingsP.required_vo: theories/SettingsP.v theories/Base.vo theories/Settings.vo
theories/SettingsP.vio: theories/SettingsP.v theories/Base.vio theories/Settings.vio
theories/SettingsP.vos theories/SettingsP.vok theories/SettingsP.required_vos: theories/SettingsP.v theories/Base.vos theories/Settings.vos
theories/Extract.vo theories/Extract.glob theories/Extract.v.beautified theories/Extract.required_vo: theories/Extract.v theories/Base.vo theories/Settings.vo
theories/Extract.vio: theories/Extract.v theories/Base.vio theories/Settings.vio
theories/Extract.vos theories/Extract.vok theories/Extract.required_vos: theories/Extract.v theories/Base.vos theories/Settings.vos
theories/Properties/C11.vo theories/Properties/C11.glob theories/Properties/C11.v.beautified theories/Properties/C11.required_vo: theories/Properties/C11.v theories/Base.vo theories/Settings.vo theories/SettingsP.vo
theories/Properties/C11.vio: theories/Properties/C11.v theories/Base.vio theories/Settings.vio theories/SettingsP.vio
theories/Properties/C11.vos theories/Properties/C11.vok theories/Properties/C11.required_vos: theories/Properties/C11.v theories/Base.vos theories/Settings.vos theories/SettingsP.vos
theories/Properties/C15.vo theories/Properties/C15.glob theories/Properties/C15.v.beautified theories/Properties/C15.required_vo: theories/Properties/C15.v theories/Base.vo theories/Settings.vo theories/SettingsP.vo
theories/Properties/C15.vio: theories/Properties/C15.v theories/Base.vio theories/Settings.vio theories/SettingsP.vio
theories/Properties/C15.vos theories/Properties/C15.vok theories/Properties/C15.required_vos: theories/Properties/C15.v theories/Base.vos theories/Settings.vos theories/SettingsP.vos
