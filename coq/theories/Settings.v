(** Settings: the runner's settings arithmetic, in checked-[usize] semantics.

    Mirrors, function by function,
      src/num_threads.rs, src/chunk_size.rs, src/params.rs,
      src/core/runner_settings/{num_threads,chunk_size,utils}.rs and
      [Runner::new], [do_spawn], [next_chunk_size] of src/core/runner.rs.

    A [usize] is an [N]; every operation the Rust debug build checks returns
    [None] exactly where that build would panic (overflow, underflow, division
    by zero, the positivity [assert!] of [validate]). *)
From OrxPar Require Import Base.

Local Open Scope N_scope.

Definition usize_max : N := 18446744073709551615.   (* 2^64 - 1 *)

Definition cadd (a b : N) : option N := if a + b <=? usize_max then Some (a + b) else None.
Definition cmul (a b : N) : option N := if a * b <=? usize_max then Some (a * b) else None.
Definition csub (a b : N) : option N := if b <=? a then Some (a - b) else None.
Definition cdiv (a b : N) : option N := if b =? 0 then None else Some (a / b).
Definition sat_mul (a b : N) : N := N.min (a * b) usize_max.

Definition obind {A B} (o : option A) (f : A -> option B) : option B :=
  match o with Some a => f a | None => None end.
Notation "'do' x <- o ; k" := (obind o (fun x => k)) (at level 200, x name, o at level 100, k at level 200).

(** * Parameters (src/num_threads.rs, src/chunk_size.rs, src/params.rs) *)

Inductive NumThreads := NTAuto | NTMax (n : N).       (* n is a NonZeroUsize *)
Inductive ChunkSize := CSAuto | CSMin (c : N) | CSExact (c : N).
Record Params := mkParams { p_threads : NumThreads; p_chunk : ChunkSize }.

Definition params_default : Params := mkParams NTAuto CSAuto.

(** [From<usize>] *)
Definition nt_of_usize (n : N) : NumThreads := if n =? 0 then NTAuto else NTMax n.
Definition cs_of_usize (n : N) : ChunkSize := if n =? 0 then CSAuto else CSExact n.

Definition with_num_threads (p : Params) (nt : NumThreads) : Params := mkParams nt (p_chunk p).
Definition with_chunk_size (p : Params) (cs : ChunkSize) : Params := mkParams (p_threads p) cs.

Definition is_sequential (p : Params) : bool :=
  match p_threads p with NTMax 1 => true | _ => false end.

(** * calc_num_threads (runner_settings/num_threads.rs), [avail] = available_parallelism >= 1 *)

Definition MAX_UNSET_NUM_THREADS : N := 8.

Definition calc_num_threads (input_len : option N) (avail : N) (nt : NumThreads) : N :=
  match nt with
  | NTAuto => N.min (match input_len with None => MAX_UNSET_NUM_THREADS | Some l => l end) avail
  | NTMax x => N.min (N.min (match input_len with None => usize_max | Some l => l end) x) avail
  end.

(** * calc_chunk_size (runner_settings/chunk_size.rs) *)

Inductive ParTask := TCollect | TEarlyReturn | TReduce.
Inductive Resolved := RMin (c : N) | RExact (c : N).

Definition r_inner (r : Resolved) : N := match r with RMin c => c | RExact c => c end.
Definition r_is_exact (r : Resolved) : bool := match r with RExact _ => true | RMin _ => false end.

Definition validate (r : Resolved) : option Resolved :=
  if 0 <? r_inner r then Some r else None.

Definition INITIAL_CHUNK_SIZE : N := 1048576.        (* 1 << 20 *)
Definition DESIRED_MIN_CHUNK_SIZE : N := 64.

Definition min_required_len (task : ParTask) (one_round_len : N) : option N :=
  match task with
  | TCollect => cmul one_round_len 4
  | TReduce => cmul one_round_len 4
  | TEarlyReturn => cmul one_round_len 8
  end.

(** The halving loop of [find_chunk_size]; [fuel] bounds the iterations
    (21 suffice: 2^20 halves to 1 in 20 steps). [None] = a checked operation failed
    or the fuel ran out (excluded by [find_chunk_size_total] in SettingsP). *)
Fixpoint find_chunk_size_loop (fuel : nat) (task : ParTask) (len nthreads chunk : N) : option N :=
  match fuel with
  | O => None
  | S fuel' =>
      do one_round <- cmul chunk nthreads;
      do req <- min_required_len task one_round;
      if req <=? len then Some chunk
      else if (one_round <=? len) && (chunk <=? DESIRED_MIN_CHUNK_SIZE) then Some chunk
      else if chunk =? 1 then Some chunk
      else find_chunk_size_loop fuel' task len nthreads (N.shiftr chunk 1)
  end.

Definition find_chunk_size (task : ParTask) (len nthreads : N) : option N :=
  find_chunk_size_loop 21 task len nthreads INITIAL_CHUNK_SIZE.

Definition auto_chunk_size (task : ParTask) (input_len : option N) (max_threads : N) : option N :=
  match input_len with
  | None => Some 1
  | Some 0 => Some 1
  | Some len => find_chunk_size task len max_threads
  end.

(** utils.rs *)
Definition div_ceil (number divider : N) : option N :=
  do x <- cdiv number divider;
  do xd <- cmul x divider;
  do remainder <- csub number xd;
  cadd x (if 0 <? remainder then 1 else 0).

Definition min_chunk_size (input_len : option N) (max_threads chunk : N) : option N :=
  match input_len with
  | None => Some chunk
  | Some 0 => Some 1
  | Some len =>
      let one_round_len := sat_mul max_threads chunk in
      if len <? one_round_len then div_ceil len max_threads else Some chunk
  end.

Definition calc_chunk_size (task : ParTask) (input_len : option N) (max_threads : N)
           (cs : ChunkSize) : option Resolved :=
  do r <- match cs with
          | CSAuto => do c <- auto_chunk_size task input_len max_threads; Some (RMin c)
          | CSMin x => do c <- min_chunk_size input_len max_threads x; Some (RMin c)
          | CSExact x => Some (RExact (match input_len with
                                        | Some len => N.min x (N.max len 1)
                                        | None => x
                                        end))
          end;
  validate r.

(** * Runner (core/runner.rs) *)

Record Runner := mkRunner { r_input_len : option N; r_max_threads : N; r_chunk : Resolved }.

Definition runner_new (params : Params) (task : ParTask) (input_len : option N) (avail : N)
  : option Runner :=
  let max_threads := N.max (calc_num_threads input_len avail (p_threads params)) 1 in
  do chunk <- calc_chunk_size task input_len max_threads (p_chunk params);
  Some (mkRunner input_len max_threads chunk).

(** [HasMore] as the spawner sees it: [None] = Maybe, [Some 0] = No, [Some n] = Yes n. *)
Definition HasMore := option N.
Definition hm_is_no (h : HasMore) : bool := match h with Some 0 => true | _ => false end.

Definition do_spawn (r : Runner) (num_spawned : N) (h : HasMore) : option bool :=
  do m1 <- csub (r_max_threads r) 1;
  if m1 <=? num_spawned then Some false else Some (negb (hm_is_no h)).

Definition next_chunk_size_unknown_len (r : Runner) (num_spawned : N) : option (option N) :=
  do m1 <- csub (r_max_threads r) 1;
  if m1 <=? num_spawned then Some None else Some (Some (r_inner (r_chunk r))).

Definition next_chunk_size_known_len (r : Runner) (num_spawned remaining_len : N)
  : option (option N) :=
  do m1 <- csub (r_max_threads r) 1;
  if m1 <=? num_spawned then Some None
  else match r_chunk r with
       | RExact x => Some (Some x)
       | RMin x =>
           if num_spawned =? 0 then Some (Some x)
           else
             let len := match r_input_len r with Some l => l | None => usize_max end in
             do done <- csub len remaining_len;
             do done_per_thread <- cdiv done num_spawned;
             do q <- cdiv done_per_thread x;
             let num_chunks_per_thread := N.max (N.max q 1) 1 in
             do c <- cmul num_chunks_per_thread x;
             Some (Some c)
       end.

Definition next_chunk_size (r : Runner) (num_spawned : N) (h : HasMore) : option (option N) :=
  match h with
  | Some 0 => Some None
  | None => next_chunk_size_unknown_len r num_spawned
  | Some remaining => next_chunk_size_known_len r num_spawned remaining
  end.
