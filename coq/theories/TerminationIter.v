(** Termination over by-value iterator sources (C10, C14 for [ConIterOfIter] / [ConIterOfIterX]).

    The ticket / gate protocol can make a thread wait: a ticket holder spins until the gate shows
    its ticket (ordered) or is open at all (first come).  This file shows that waiting never turns
    into a deadlock and that every run completes:

    - [LInv]: in ordered mode, while the gate is not closed, every position between the frontier
      and the ticket counter is claimed by exactly one outstanding ticket (or by the rest of the
      current reader's chunk), and nothing outside is claimed.  Hence the ticket the gate is
      waiting for is held by somebody ([inot_done_enabled]).
    - every effective micro-step decreases the measure [iphi]; a round-robin round from a state
      that is not complete contains an effective step; [irr_completes]. *)
From OrxPar Require Import Base Machine MachineP Termination MachineIter MachineIterP.
Set Implicit Arguments.

Section TermIter.
Variable srclen : nat.
Variable known : bool.
Variable ordered : bool.
Variable stop : nat -> bool.
Variable panics : nat -> bool.
Variable dospawn : nat -> option nat -> bool.
Variable nextc : nat -> option nat -> option nat.
Variable maxt : nat.

Hypothesis dospawn_bound : forall n h, dospawn n h = true -> n + 2 <= maxt.
Hypothesis nextc_pos : forall n h c, nextc n h = Some c -> 0 < c.
Hypothesis maxt_pos : 1 <= maxt.

Notation iwstep := (iwstep srclen ordered stop panics).
Notation istep := (istep srclen known ordered stop panics dospawn nextc).
Notation irun := (irun srclen known ordered stop panics dospawn nextc).
Notation isstep := (isstep srclen known dospawn nextc).
Notation IGInv := (IGInv srclen stop panics maxt).
Notation Split := (Split srclen stop panics).

Lemma stepG s t : IGInv s -> IGInv (istep s t).
Proof. apply istep_IGInv; auto. Qed.
Lemma runG s l : IGInv s -> IGInv (irun s l).
Proof. apply irun_IGInv; auto. Qed.

(** ** which positions a worker has claimed and not yet read *)
Definition in_span (x : nat) (w : iworker) : bool :=
  match iph w with
  | ITicket t => (t <=? x) && (x <? t + icsize w)
  | IReading t got => (t + got <=? x) && (x <? t + icsize w)
  | _ => false
  end.
Definition cl (x : nat) (l : list iworker) : nat := length (filter (in_span x) l).

Lemma cl_app x a b : cl x (a ++ b) = cl x a + cl x b.
Proof. unfold cl. rewrite filter_app, app_length. reflexivity. Qed.
Lemma cl_cons x w l : cl x (w :: l) = (if in_span x w then 1 else 0) + cl x l.
Proof. unfold cl. simpl. destruct (in_span x w); reflexivity. Qed.
Lemma cl_mid x l1 w l2 : cl x (l1 ++ w :: l2) = cl x l1 + (if in_span x w then 1 else 0) + cl x l2.
Proof. rewrite cl_app, cl_cons. lia. Qed.

Definition claims (f c : nat) (l : list iworker) : Prop :=
  f <= c /\ forall x, cl x l = if (f <=? x) && (x <? c) then 1 else 0.

Definition LInv (s : isys) : Prop :=
  ordered = true -> igate s <> Closed -> claims (ifront s) (ictr s) (iws s).

Ltac bools :=
  repeat match goal with
         | |- context [?a <=? ?b] => destruct (Nat.leb_spec a b)
         | |- context [?a <? ?b] => destruct (Nat.ltb_spec a b)
         | |- context [?a =? ?b] => destruct (Nat.eqb_spec a b)
         | H : context [?a <=? ?b] |- _ => destruct (Nat.leb_spec a b)
         | H : context [?a <? ?b] |- _ => destruct (Nat.ltb_spec a b)
         | H : context [?a =? ?b] |- _ => destruct (Nat.eqb_spec a b)
         end; cbn [andb] in *.

Lemma iwstep_claims c g f sk l1 w l2 c' g' f' sk' w' :
  ordered = true ->
  iwstep c g f sk w = (c', g', f', sk', w') ->
  Split g f sk l1 w l2 ->
  (g <> Closed -> claims f c (l1 ++ w :: l2)) ->
  (g' <> Closed -> claims f' c' (l1 ++ w' :: l2)).
Proof.
  intros Hord Hs HS HL Hg'.
  pose proof (S_rdw HS) as Hrd. pose proof (IW_cs (S_ww HS)) as Hcs.
  pose proof (S_open HS) as Hopen.
  unfold MachineIter.iwstep in Hs. rewrite Hord in Hs.
  destruct w as [cs p sn ab pl]; cbn [iph icsize iseen iaband ipulls setph] in *.
  unfold claims in *. setoid_rewrite cl_mid. setoid_rewrite cl_mid in HL.
  unfold in_span in *; cbn [iph icsize setph] in *.
  destruct p as [|t|t got|b k| | |].
  - (* IReady: takes ticket c *)
    injection Hs as <- <- <- <- <-. cbn [iph icsize setph]. destruct (HL Hg') as [Hfc HC].
    split; [lia|]. intros x. specialize (HC x). bools; lia.
  - (* ITicket *)
    destruct g as [n| |].
    + destruct (n =? t) eqn:Ent.
      * injection Hs as <- <- <- <- <-. cbn [iph icsize setph]. destruct HL as [Hfc HC]; [discriminate|].
        split; [lia|]. intros x. specialize (HC x). rewrite Nat.add_0_r. exact HC.
      * injection Hs as <- <- <- <- <-. cbn [iph icsize setph]. apply HL. discriminate.
    + injection Hs as <- <- <- <- <-. cbn [iph icsize setph]. apply HL. discriminate.
    + injection Hs as <- <- <- <- <-. congruence.
  - (* IReading *)
    destruct (Hrd t got eq_refl) as [Hf Hgot].
    destruct ((got <? cs) && (f <? srclen)) eqn:Eb.
    + injection Hs as <- <- <- <- <-. cbn [iph icsize setph].
      apply andb_true_iff in Eb. destruct Eb as [Eb1 Eb2]. apply Nat.ltb_lt in Eb1.
      destruct (HL Hg') as [Hfc HC].
      assert (Hlt : f < c).
      { specialize (HC f). bools; lia. }
      split; [lia|]. intros x. specialize (HC x). bools; lia.
    + destruct g as [n| |].
      * (* a reader while the gate is open: excluded by the invariant *)
        destruct (Hopen n eq_refl) as [_ Hr]. cbn in Hr. lia.
      * destruct (got =? cs) eqn:Eg.
        -- injection Hs as <- <- <- <- <-. cbn [iph icsize setph]. destruct HL as [Hfc HC]; [discriminate|].
           apply Nat.eqb_eq in Eg. split; [lia|]. intros x. specialize (HC x). bools; lia.
        -- injection Hs as <- <- <- <- <-. congruence.
      * injection Hs as <- <- <- <- <-. congruence.
  - (* IHolding *)
    destruct k as [|k].
    + injection Hs as <- <- <- <- <-. cbn [iph icsize setph]. apply HL. exact Hg'.
    + destruct (panics b); [injection Hs as <- <- <- <- <-; cbn [iph icsize setph]; apply HL; exact Hg'|].
      destruct (stop b); [injection Hs as <- <- <- <- <-; cbn [iph icsize setph]; apply HL; exact Hg'|].
      destruct k; injection Hs as <- <- <- <- <-; cbn [iph icsize setph]; apply HL; exact Hg'.
  - injection Hs as <- <- <- <- <-. congruence.
  - injection Hs as <- <- <- <- <-. cbn [iph icsize setph]. apply HL. exact Hg'.
  - injection Hs as <- <- <- <- <-. cbn [iph icsize setph]. apply HL. exact Hg'.
Qed.

Lemma istep_LInv s t : IGInv s -> LInv s -> LInv (istep s t).
Proof.
  intros G L. destruct t as [|i].
  - (* the spawner only appends fresh workers, which claim nothing *)
    unfold LInv, MachineIter.istep, MachineIter.isstep, ispawn, iset_sph in *.
    assert (Hfresh : forall cu, claims (ifront s) (ictr s) (iws s) ->
                                claims (ifront s) (ictr s) (iws s ++ [ifresh cu])).
    { intros cu [H1 H2]. split; auto. intros x. rewrite cl_app. cbn. rewrite <- H2. unfold cl. lia. }
    destruct (isph s) as [j| | |]; [destruct (dospawn _ _)|destruct (nextc _ _)| |];
      cbn [ictr igate ifront iws]; intros Ho Hg; auto.
  - unfold MachineIter.istep.
    destruct (nth_error (iws s) i) as [w|] eqn:En; [|exact L].
    apply nth_error_split in En. destruct En as (l1 & l2 & El & Hi). subst i.
    destruct s as [c g f sk l p cu]; cbn [ictr igate ifront iskipped iws isph icur] in *. subst l.
    destruct (iwstep c g f sk w) as [[[[c' g'] f'] sk'] w'] eqn:Ew.
    rewrite upd_split. apply IGInv_Split in G; auto. destruct G as (GS & _ & _).
    unfold LInv in *; cbn [ictr igate ifront iws] in *. intros Ho Hg.
    eapply iwstep_claims; eauto.
Qed.

Lemma irun_LInv s sched : IGInv s -> LInv s -> LInv (irun s sched).
Proof.
  revert s; induction sched as [|t r IH]; intros s G L; simpl; auto.
  apply IH; [apply istep_IGInv; auto|apply istep_LInv; auto].
Qed.

Lemma iinit_LInv c0 : LInv (iinit c0).
Proof. intros _ _. split; cbn; auto. Qed.

(** ** the measure *)
Definition ipot (g : gate) (w : iworker) : nat :=
  match iph w, g with
  | IReady, Closed => 2
  | IReady, _ => 7
  | ITicket _, Closed => 1
  | ITicket _, _ => 6
  | IReading _ got, _ => 5 + 4 * got
  | IHolding _ 0, Closed => 3
  | IHolding _ 0, _ => 8
  | IHolding _ (S k), _ => 8 + k
  | IFound, _ => 1
  | IDone, _ => 0
  | IDead, _ => 0
  end.
Definition isum (g : gate) (l : list iworker) : nat := sum_list (map (ipot g) l).
Definition iphi (s : isys) : nat :=
  9 * (maxt - length (iws s)) + rank (isph s) + isum (igate s) (iws s) + 5 * (srclen - ifront s).

(** a gate never reopens: the potential of the waiting workers can only go down *)
Definition gle (g' g : gate) : Prop := g' = Closed \/ (g <> Closed /\ g' <> Closed).

Lemma ipot_mono g' g w : gle g' g -> ipot g' w <= ipot g w.
Proof.
  unfold gle, ipot. intros [-> | [H1 H2]]; destruct (iph w) as [| | |b [|k]| | |]; destruct g; try lia;
    destruct g'; try lia; congruence.
Qed.
Lemma isum_mono g' g l : gle g' g -> isum g' l <= isum g l.
Proof.
  intros H. unfold isum, sum_list. induction l as [|w l IH]; cbn [map fold_right]; [lia|].
  pose proof (ipot_mono w H). lia.
Qed.
Lemma isum_app g a b : isum g (a ++ b) = isum g a + isum g b.
Proof. unfold isum. rewrite map_app. apply sum_list_app. Qed.
Lemma isum_cons g w l : isum g (w :: l) = ipot g w + isum g l.
Proof. reflexivity. Qed.

(** a pick is enabled when its step is not a stutter *)
Definition ienabled (s : isys) (t : nat) : bool :=
  match t with
  | 0 => match isph s with SpDone => false | _ => true end
  | S i => match nth_error (iws s) i with
           | Some w =>
               match iph w with
               | IDone | IDead => false
               | ITicket tk => match igate s with
                               | Open n => if ordered then n =? tk else true
                               | Busy => false
                               | Closed => true
                               end
               | _ => true
               end
           | None => false
           end
  end.

Lemma upd_same {X} (l : list X) j x : nth_error l j = Some x -> upd l j x = l.
Proof.
  revert j; induction l as [|h r IH]; intros j Hj; [destruct j; discriminate|].
  destruct j; simpl in *; [injection Hj as ->; reflexivity|]. f_equal. apply IH; auto.
Qed.

Lemma idisabled_stutters s t : ienabled s t = false -> istep s t = s.
Proof.
  destruct t as [|i]; simpl.
  - unfold MachineIter.isstep. destruct (isph s); try discriminate. reflexivity.
  - destruct (nth_error (iws s) i) as [w|] eqn:En; [|reflexivity].
    destruct w as [cs p sn ab pl]; cbn [iph setph]. unfold MachineIter.iwstep; cbn [iph icsize setph].
    destruct p as [|tk|t got|b k| | |]; try discriminate.
    + destruct (igate s) as [n| |] eqn:Eg; try discriminate.
      * destruct ordered; [|discriminate]. intros E. rewrite E.
        destruct s; cbn in *. subst. f_equal. apply upd_same; auto.
      * intros _. destruct s; cbn in *. subst. f_equal. apply upd_same; auto.
    + intros _. destruct s; cbn in *. f_equal. apply upd_same; auto.
    + intros _. destruct s; cbn in *. f_equal. apply upd_same; auto.
Qed.

(** one enabled worker step: the gate does not reopen and the worker's potential plus what is
    left of the source strictly decreases *)
Lemma iwstep_decreases c g f sk l1 w l2 c' g' f' sk' w' :
  iwstep c g f sk w = (c', g', f', sk', w') ->
  Split g f sk l1 w l2 ->
  match iph w with
  | IDone | IDead => False
  | ITicket tk => match g with Open n => if ordered then n = tk else True | Busy => False | Closed => True end
  | _ => True
  end ->
  gle g' g /\ f <= f' /\ f' <= srclen /\ ipot g' w' + 5 * (srclen - f') < ipot g w + 5 * (srclen - f).
Proof.
  intros Hs HS Hen.
  pose proof (S_rdw HS) as Hrd. pose proof (IW_cs (S_ww HS)) as Hcs.
  pose proof (S_open HS) as Hopen. pose proof (S_front HS) as Hfr.
  unfold MachineIter.iwstep in Hs.
  destruct w as [cs p sn ab pl]; cbn [iph icsize iseen iaband ipulls setph] in *.
  unfold gle, ipot; cbn [iph setph].
  destruct p as [|t|t got|b k| | |]; try contradiction.
  - injection Hs as <- <- <- <- <-. cbn [iph setph]. destruct g; repeat split; auto; try lia;
      try (right; split; discriminate).
  - destruct g as [n| |]; try contradiction.
    + destruct ordered.
      * subst n. rewrite Nat.eqb_refl in Hs. injection Hs as <- <- <- <- <-. cbn [iph setph].
        repeat split; auto; try lia. right; split; discriminate.
      * injection Hs as <- <- <- <- <-. cbn [iph setph]. repeat split; auto; try lia. right; split; discriminate.
    + injection Hs as <- <- <- <- <-. cbn [iph setph]. repeat split; auto; lia.
  - destruct (Hrd t got eq_refl) as [Hf Hgot].
    destruct ((got <? cs) && (f <? srclen)) eqn:Eb.
    + apply andb_true_iff in Eb. destruct Eb as [Eb1 Eb2]. apply Nat.ltb_lt in Eb1, Eb2.
      injection Hs as <- <- <- <- <-. cbn [iph setph]. repeat split; try lia.
      destruct g; [right; split; discriminate|right; split; discriminate|left; reflexivity].
    + destruct g as [n| |].
      * destruct (Hopen n eq_refl) as [_ Hr]. cbn in Hr. lia.
      * destruct (got =? cs) eqn:Eg.
        -- apply Nat.eqb_eq in Eg. injection Hs as <- <- <- <- <-. cbn [iph setph].
           repeat split; try lia; [right; split; discriminate|]. destruct got; lia.
        -- injection Hs as <- <- <- <- <-. cbn [iph setph]. repeat split; try lia; [left; reflexivity|].
           destruct got; lia.
      * injection Hs as <- <- <- <- <-. cbn [iph setph]. repeat split; try lia; [left; reflexivity|].
        destruct got; lia.
  - assert (Hg : g = Closed \/ (g <> Closed /\ g <> Closed)).
    { destruct g; [right; split; discriminate|right; split; discriminate|left; reflexivity]. }
    destruct k as [|k].
    + injection Hs as <- <- <- <- <-. cbn [iph setph]. repeat split; auto; try lia. destruct g; lia.
    + destruct (panics b); [injection Hs as <- <- <- <- <-; cbn [iph setph]; repeat split; auto; lia|].
      destruct (stop b); [injection Hs as <- <- <- <- <-; cbn [iph setph]; repeat split; auto; lia|].
      destruct k as [|k]; injection Hs as <- <- <- <- <-; cbn [iph setph]; repeat split; auto; try lia.
      destruct g; lia.
  - injection Hs as <- <- <- <- <-. cbn [iph setph]. repeat split; auto; try lia.
Qed.

Theorem ienabled_decreases s t : IGInv s -> ienabled s t = true -> iphi (istep s t) < iphi s.
Proof.
  intros G He. destruct t as [|i].
  - (* the spawner *)
    pose proof (I_sp G) as Hsp. cbn in He. unfold iphi, MachineIter.istep, MachineIter.isstep, ispawn, iset_sph.
    assert (Hfresh : forall cu, isum (igate s) (iws s ++ [ifresh cu]) <= isum (igate s) (iws s) + 7).
    { intros cu. rewrite isum_app, isum_cons.
      assert (ipot (igate s) (ifresh cu) <= 7) by (unfold ipot, ifresh; cbn [iph]; destruct (igate s); lia).
      assert (isum (igate s) [] = 0) by reflexivity. lia. }
    destruct (isph s) as [j| | |] eqn:Ep; try discriminate.
    + destruct (dospawn (length (iws s)) (ihas_more srclen known s)) eqn:Ed.
      * apply dospawn_bound in Ed. cbn [ictr igate ifront iws isph]. rewrite app_length. cbn [length].
        specialize (Hfresh (icur s)). destruct j as [|[|j]]; cbn [rank]; lia.
      * cbn [ictr igate ifront iws isph rank]. lia.
    + destruct (nextc (length (iws s)) (ihas_more srclen known s)); cbn [ictr igate ifront iws isph rank]; lia.
    + cbn [ictr igate ifront iws isph]. rewrite app_length. cbn [length rank].
      specialize (Hfresh (icur s)). lia.
  - unfold MachineIter.istep. cbn in He.
    destruct (nth_error (iws s) i) as [w|] eqn:En; [|discriminate].
    apply nth_error_split in En. destruct En as (l1 & l2 & El & Hi). subst i.
    destruct s as [c g f sk l p cu]; cbn [ictr igate ifront iskipped iws isph icur] in *. subst l.
    destruct (iwstep c g f sk w) as [[[[c' g'] f'] sk'] w'] eqn:Ew.
    rewrite upd_split. apply IGInv_Split in G; auto. destruct G as (GS & _ & Hsp).
    assert (Hen : match iph w with
                  | IDone | IDead => False
                  | ITicket tk => match g with Open n => if ordered then n = tk else True | Busy => False | Closed => True end
                  | _ => True
                  end).
    { destruct (iph w); try discriminate; auto. destruct g; try discriminate; auto.
      destruct ordered; auto. apply Nat.eqb_eq. exact He. }
    assert (HD : gle g' g /\ f <= f' /\ f' <= srclen /\
                 ipot g' w' + 5 * (srclen - f') < ipot g w + 5 * (srclen - f)).
    { eapply iwstep_decreases; eauto. }
    destruct HD as (Hg & Hf1 & Hf2 & Hd).
    unfold iphi; cbn [ictr igate ifront iws isph]. rewrite !isum_app, !isum_cons, !app_length. cbn [length].
    pose proof (isum_mono l1 Hg). pose proof (isum_mono l2 Hg). lia.
Qed.

(** ** counting effective steps *)
Fixpoint ieffective (s : isys) (sched : list nat) : nat :=
  match sched with
  | [] => 0
  | t :: r => (if ienabled s t then 1 else 0) + ieffective (istep s t) r
  end.

Theorem ieffective_bounded s sched : IGInv s -> ieffective s sched + iphi (irun s sched) <= iphi s.
Proof.
  revert s; induction sched as [|t r IH]; intros s G; simpl; [lia|].
  specialize (IH (istep s t) (stepG t G)).
  destruct (ienabled s t) eqn:E.
  - pose proof (ienabled_decreases t G E). lia.
  - rewrite (idisabled_stutters s t E) in *. lia.
Qed.

(** ** no reachable state is stuck *)
Lemma cl_pos x l : 1 <= cl x l -> exists i w, nth_error l i = Some w /\ in_span x w = true.
Proof.
  induction l as [|h r IH]; [cbn; lia|]. rewrite cl_cons. destruct (in_span x h) eqn:E.
  - intros _. exists 0, h. auto.
  - intros H. destruct IH as (i & w & Hi & Hw); [lia|]. exists (S i), w. auto.
Qed.
Lemma cl_ge x l i w : nth_error l i = Some w -> in_span x w = true -> 1 <= cl x l.
Proof.
  revert i; induction l as [|h r IH]; intros i Hi Hw; [destruct i; discriminate|].
  rewrite cl_cons. destruct i as [|i]; simpl in Hi.
  - injection Hi as ->. rewrite Hw. lia.
  - specialize (IH _ Hi Hw). lia.
Qed.
Lemma readers_pos l : 1 <= readers l -> exists i w, nth_error l i = Some w /\ is_reading w = true.
Proof.
  induction l as [|h r IH]; [cbn; lia|]. rewrite readers_cons. destruct (is_reading h) eqn:E.
  - intros _. exists 0, h. auto.
  - intros H. destruct IH as (i & w & Hi & Hw); [lia|]. exists (S i), w. auto.
Qed.
Lemma readers_zero l i w : readers l = 0 -> nth_error l i = Some w -> is_reading w = false.
Proof.
  revert i; induction l as [|h r IH]; intros i H Hi; [destruct i; discriminate|].
  rewrite readers_cons in H. destruct i as [|i]; simpl in Hi.
  - injection Hi as <-. destruct (is_reading h); auto. lia.
  - eapply IH; eauto. lia.
Qed.

Lemma unfinished_exists l :
  forallb (fun w => match iph w with IDone | IDead => true | _ => false end) l = false ->
  exists i w, nth_error l i = Some w /\ iph w <> IDone /\ iph w <> IDead.
Proof.
  induction l as [|h r IH]; simpl; [discriminate|].
  destruct (iph h) eqn:E; try (intros _; exists 0, h; split; [reflexivity|split; congruence]).
  - simpl. intros H. destruct (IH H) as (i & w & Hi & Hw). exists (S i), w. auto.
  - simpl. intros H. destruct (IH H) as (i & w & Hi & Hw). exists (S i), w. auto.
Qed.

Theorem inot_done_enabled s : IGInv s -> LInv s -> iall_doneb s = false ->
  exists t, ienabled s t = true /\ t <= length (iws s).
Proof.
  intros G L. unfold iall_doneb.
  destruct (isph s) eqn:Ep; try (intros _; exists 0; simpl; rewrite Ep; split; [reflexivity|lia]).
  intros H. destruct (unfinished_exists _ H) as (i & w & Hi & Hw1 & Hw2).
  assert (Hbound : forall j x, nth_error (iws s) j = Some x -> S j <= length (iws s)).
  { intros j x Hj. apply nth_error_Some_lt in Hj. lia. }
  destruct (igate s) as [n| |] eqn:Eg.
  - (* open *)
    destruct (I_open G Eg) as [Hn Hr].
    destruct ordered eqn:Eo.
    + destruct (L Eo) as [Hfc HC]; [rewrite Eg; discriminate|].
      destruct (Nat.lt_ge_cases (ifront s) (ictr s)) as [Hlt|Hge].
      * (* the ticket the gate waits for is outstanding *)
        pose proof (HC (ifront s)) as H1.
        replace ((ifront s <=? ifront s) && (ifront s <? ictr s)) with true in H1
          by (symmetry; apply andb_true_iff; split; [apply Nat.leb_le; lia|apply Nat.ltb_lt; lia]).
        destruct (cl_pos (ifront s) (iws s)) as (j & x & Hj & Hx); [lia|].
        pose proof (readers_zero _ _ Hr Hj) as Hnr.
        unfold in_span in Hx. unfold is_reading in Hnr.
        destruct (iph x) as [|tk|t got|b k| | |] eqn:Ex; try discriminate.
        apply andb_true_iff in Hx. destruct Hx as [Hx1 Hx2]. apply Nat.leb_le in Hx1. apply Nat.ltb_lt in Hx2.
        assert (tk = ifront s).
        { destruct (Nat.eq_dec tk (ifront s)) as [E|E]; auto.
          (* an outstanding ticket behind the frontier would be a claim outside [front, ctr) *)
          pose proof (HC tk) as H2.
          assert (1 <= cl tk (iws s)).
          { eapply cl_ge; eauto. unfold in_span. rewrite Ex. apply andb_true_iff.
            pose proof (IW_cs (proj1 (Forall_forall _ _) (I_w G) x (nth_error_In _ _ Hj))).
            split; [apply Nat.leb_le; lia|apply Nat.ltb_lt; lia]. }
          replace ((ifront s <=? tk) && (tk <? ictr s)) with false in H2; [lia|].
          symmetry. apply andb_false_iff. left. apply Nat.leb_gt. lia. }
        exists (S j). simpl. rewrite Hj, Ex, Eg, Eo. split; [apply Nat.eqb_eq; lia|eauto].
      * (* no ticket is outstanding: whoever is unfinished is not waiting *)
        exists (S i). simpl. rewrite Hi. split; [|eauto].
        destruct (iph w) as [|tk|t got|b k| | |] eqn:Ew; try congruence; auto.
        exfalso. pose proof (HC tk) as H2.
        assert (1 <= cl tk (iws s)).
        { eapply cl_ge; eauto. unfold in_span. rewrite Ew. apply andb_true_iff.
          pose proof (IW_cs (proj1 (Forall_forall _ _) (I_w G) w (nth_error_In _ _ Hi))).
          split; [apply Nat.leb_le; lia|apply Nat.ltb_lt; lia]. }
        destruct ((ifront s <=? tk) && (tk <? ictr s)) eqn:Eb; [|lia].
        apply andb_true_iff in Eb. destruct Eb as [Eb1 Eb2]. apply Nat.leb_le in Eb1. apply Nat.ltb_lt in Eb2. lia.
    + exists (S i). simpl. rewrite Hi. split; [|eauto].
      destruct (iph w); try congruence; auto. rewrite Eg, Eo. reflexivity.
  - (* busy: the reader can move *)
    pose proof (I_busy G Eg) as Hr.
    destruct (readers_pos (iws s)) as (j & x & Hj & Hx); [lia|].
    exists (S j). simpl. rewrite Hj. split; [|eauto].
    unfold is_reading in Hx. destruct (iph x); try discriminate. reflexivity.
  - (* closed: nobody waits *)
    exists (S i). simpl. rewrite Hi. split; [|eauto].
    destruct (iph w); try congruence; auto. rewrite Eg. reflexivity.
Qed.

Lemma iall_doneb_spec s : iall_doneb s = true <-> iall_done s.
Proof.
  unfold iall_doneb, iall_done. destruct (isph s); split; try (intros H; discriminate H);
    try (intros [H _]; discriminate H).
  - intros H. split; [reflexivity|]. rewrite forallb_forall in H. intros w Hw. specialize (H w Hw).
    unfold ifinished. destruct (iph w); try discriminate; auto.
  - intros [_ H]. apply forallb_forall. intros w Hw. destruct (H w Hw) as [-> | ->]; reflexivity.
Qed.

(** a schedule that contains a pick which is enabled now performs an effective step *)
Lemma list_progress l : forall s t, IGInv s -> In t l -> ienabled s t = true -> iphi (irun s l) < iphi s.
Proof.
  induction l as [|x r IH]; intros s t G Hin He; [destruct Hin|].
  cbn [MachineIter.irun fold_left]. fold (irun (istep s x) r).
  pose proof (stepG x G) as G'.
  destruct (ienabled s x) eqn:Ex.
  - pose proof (ienabled_decreases x G Ex). pose proof (@ieffective_bounded (istep s x) r G'). lia.
  - rewrite (idisabled_stutters s x Ex). destruct Hin as [->|Hin]; [congruence|].
    eapply IH; eauto.
Qed.

Lemma iround_progress s m : IGInv s -> LInv s -> length (iws s) <= m -> iall_doneb s = false ->
  iphi (irun s (seq 0 (S m))) < iphi s.
Proof.
  intros G L Hm Hnd. destruct (inot_done_enabled G L Hnd) as (t & He & Ht).
  eapply list_progress; eauto. apply in_seq. lia.
Qed.

Lemma irun_ws_bound s sched : IGInv s -> length (iws (irun s sched)) <= maxt.
Proof.
  intros G. assert (G' : IGInv (irun s sched)) by (apply irun_IGInv; auto). pose proof (I_sp G') as H.
  destruct (isph (irun s sched)); lia.
Qed.

(** after any reachable state, [iphi] rounds of round robin over all possible threads complete
    the run: no deadlock on the handle, no livelock *)
Theorem irr_completes s n : IGInv s -> LInv s -> iphi s <= n ->
  iall_doneb (irun s (round_robin maxt n)) = true.
Proof.
  revert s; induction n as [|n IH]; intros s G L Hn.
  - simpl. destruct (iall_doneb s) eqn:E; auto.
    assert (Hm : length (iws s) <= maxt) by (apply (irun_ws_bound [] G)).
    pose proof (iround_progress G L Hm E). lia.
  - cbn [round_robin]. unfold MachineIter.irun. rewrite fold_left_app. fold (irun s (seq 0 (S maxt))).
    fold (irun (irun s (seq 0 (S maxt))) (round_robin maxt n)).
    destruct (iall_doneb s) eqn:E.
    + assert (Hst : forall l, irun s l = s).
      { intros l. induction l as [|t l IHl]; simpl; auto.
        rewrite idisabled_stutters; auto.
        apply iall_doneb_spec in E. destruct E as [E1 E2]. destruct t as [|i]; simpl.
        - rewrite E1. reflexivity.
        - destruct (nth_error (iws s) i) as [w|] eqn:En; auto.
          destruct (E2 w (nth_error_In _ _ En)) as [-> | ->]; reflexivity. }
      rewrite !Hst. exact E.
    + assert (Hm : length (iws s) <= maxt) by (apply (irun_ws_bound [] G)).
      pose proof (iround_progress G L Hm E) as Hp.
      apply IH; [apply irun_IGInv; auto|apply irun_LInv; auto|lia].
Qed.

(** ** after the early-exit signal (or exhaustion) the gate is closed for good, and what is left
    to do no longer depends on the source: the reader, if any, finishes its chunk; everybody
    else processes what it holds and leaves *)
Definition jpot (w : iworker) : nat :=
  match iph w with
  | IReady => 2
  | ITicket _ => 1
  | IReading _ got => 5 + 6 * icsize w - got
  | IHolding _ 0 => 3
  | IHolding _ (S k) => 8 + k
  | IFound => 1
  | IDone => 0
  | IDead => 0
  end.
Definition jsum (l : list iworker) : nat := sum_list (map jpot l).
Definition jphi (s : isys) : nat := 9 * (maxt - length (iws s)) + rank (isph s) + jsum (iws s).

Lemma jsum_app a b : jsum (a ++ b) = jsum a + jsum b.
Proof. unfold jsum. rewrite map_app. apply sum_list_app. Qed.
Lemma jsum_cons w l : jsum (w :: l) = jpot w + jsum l.
Proof. reflexivity. Qed.

Lemma iwstep_closed c f sk l1 w l2 c' g' f' sk' w' :
  iwstep c Closed f sk w = (c', g', f', sk', w') ->
  Split Closed f sk l1 w l2 ->
  g' = Closed /\ (iph w <> IDone -> iph w <> IDead -> jpot w' < jpot w) /\ (jpot w' <= jpot w).
Proof.
  intros Hs HS.
  pose proof (S_rdw HS) as Hrd. pose proof (IW_cs (S_ww HS)) as Hcs.
  unfold MachineIter.iwstep in Hs.
  destruct w as [cs p sn ab pl]; cbn [iph icsize iseen iaband ipulls setph] in *.
  unfold jpot; cbn [iph icsize].
  destruct p as [|t|t got|b k| | |].
  - injection Hs as <- <- <- <- <-. cbn [iph icsize setph]. repeat split; auto; lia.
  - injection Hs as <- <- <- <- <-. cbn [iph icsize setph]. repeat split; auto; lia.
  - destruct (Hrd t got eq_refl) as [Hf Hgot]. cbn [icsize] in Hgot.
    destruct ((got <? cs) && (f <? srclen)) eqn:Eb.
    + apply andb_true_iff in Eb. destruct Eb as [Eb1 Eb2]. apply Nat.ltb_lt in Eb1.
      injection Hs as <- <- <- <- <-. cbn [iph icsize setph]. repeat split; auto; lia.
    + injection Hs as <- <- <- <- <-. cbn [iph icsize setph]. repeat split; auto; destruct got; lia.
  - destruct k as [|k].
    + injection Hs as <- <- <- <- <-. cbn [iph icsize setph]. repeat split; auto; lia.
    + destruct (panics b); [injection Hs as <- <- <- <- <-; cbn [iph icsize]; repeat split; auto; lia|].
      destruct (stop b); [injection Hs as <- <- <- <- <-; cbn [iph icsize]; repeat split; auto; lia|].
      destruct k as [|k]; injection Hs as <- <- <- <- <-; cbn [iph icsize]; repeat split; auto; lia.
  - injection Hs as <- <- <- <- <-. cbn [iph icsize setph]. repeat split; auto; lia.
  - injection Hs as <- <- <- <- <-. cbn [iph icsize setph]. repeat split; auto; congruence.
  - injection Hs as <- <- <- <- <-. cbn [iph icsize setph]. repeat split; auto; congruence.
Qed.

Lemma istep_closed s t : IGInv s -> igate s = Closed ->
  igate (istep s t) = Closed /\ jphi (istep s t) <= jphi s /\
  (ienabled s t = true -> jphi (istep s t) < jphi s).
Proof.
  intros G Hc. destruct t as [|i].
  - pose proof (I_sp G) as Hsp. unfold jphi, MachineIter.istep, MachineIter.isstep, ispawn, iset_sph. cbn [ienabled].
    assert (Hfresh : forall cu, jsum (iws s ++ [ifresh cu]) = jsum (iws s) + 2).
    { intros cu. rewrite jsum_app, jsum_cons. unfold jpot, ifresh; cbn [iph]. unfold jsum at 2; cbn. lia. }
    destruct (isph s) as [j| | |] eqn:Ep.
    + destruct (dospawn (length (iws s)) (ihas_more srclen known s)) eqn:Ed.
      * apply dospawn_bound in Ed. cbn [ictr igate ifront iws isph]. rewrite app_length, Hfresh. cbn [length].
        split; [exact Hc|]. destruct j as [|[|j]]; cbn [rank]; split; intros; lia.
      * cbn [ictr igate ifront iws isph rank]. split; [exact Hc|]. split; intros; lia.
    + destruct (nextc (length (iws s)) (ihas_more srclen known s)); cbn [ictr igate ifront iws isph rank];
        (split; [exact Hc|]); split; intros; lia.
    + cbn [ictr igate ifront iws isph]. rewrite app_length, Hfresh. cbn [length rank].
      split; [exact Hc|]. split; intros; lia.
    + rewrite Ep. split; [exact Hc|]. split; [lia|discriminate].
  - unfold MachineIter.istep. cbn [ienabled].
    destruct (nth_error (iws s) i) as [w|] eqn:En; [|split; [exact Hc|split; [lia|discriminate]]].
    apply nth_error_split in En. destruct En as (l1 & l2 & El & Hi). subst i.
    destruct s as [c g f sk l p cu]; cbn [ictr igate ifront iskipped iws isph icur] in *. subst l g.
    destruct (iwstep c Closed f sk w) as [[[[c' g'] f'] sk'] w'] eqn:Ew.
    rewrite upd_split. apply IGInv_Split in G; auto. destruct G as (GS & _ & Hsp).
    assert (HD : g' = Closed /\ (iph w <> IDone -> iph w <> IDead -> jpot w' < jpot w) /\ (jpot w' <= jpot w)).
    { eapply iwstep_closed; eauto. }
    destruct HD as (Hg & Hlt & Hle).
    unfold jphi; cbn [ictr igate ifront iws isph]. rewrite !jsum_app, !jsum_cons, !app_length. cbn [length].
    split; [exact Hg|]. split; [lia|].
    intros He. assert (jpot w' < jpot w); [|lia].
    apply Hlt; intros E; rewrite E in He; discriminate.
Qed.

(** C10 over iterator sources: once the gate is closed, no schedule contains more than [jphi]
    effective steps -- a bound in the number of threads and their chunk sizes only *)
Theorem ieffective_after_close s sched : IGInv s -> igate s = Closed ->
  ieffective s sched + jphi (irun s sched) <= jphi s.
Proof.
  revert s; induction sched as [|t r IH]; intros s G Hc; simpl; [lia|].
  destruct (istep_closed t G Hc) as (Hc' & Hle & Hlt).
  specialize (IH (istep s t) (stepG t G) Hc').
  destruct (ienabled s t) eqn:E.
  - specialize (Hlt eq_refl). lia.
  - lia.
Qed.

(** a worker never holds more than its chunk size *)
Definition HB (w : iworker) : Prop := forall b k, iph w = IHolding b k -> k <= icsize w.

Lemma iwstep_HB c g f sk l1 w l2 c' g' f' sk' w' :
  iwstep c g f sk w = (c', g', f', sk', w') -> Split g f sk l1 w l2 -> HB w -> HB w'.
Proof.
  intros Hs HS Hb. pose proof (S_rdw HS) as Hrd.
  unfold MachineIter.iwstep in Hs. unfold HB in *.
  destruct w as [cs p sn ab pl]; cbn [iph icsize iseen iaband ipulls setph] in *.
  destruct p as [|t|t got|b k| | |].
  - injection Hs as <- <- <- <- <-. cbn [iph icsize setph]. discriminate.
  - destruct g as [n| |]; [destruct ordered; [destruct (n =? t)|]| |];
      injection Hs as <- <- <- <- <-; cbn [iph icsize setph]; discriminate.
  - destruct (Hrd t got eq_refl) as [Hf Hgot]. cbn [icsize] in Hgot.
    destruct ((got <? cs) && (f <? srclen)).
    + injection Hs as <- <- <- <- <-. cbn [iph icsize setph]. discriminate.
    + injection Hs as <- <- <- <- <-. cbn [iph icsize setph]. intros b k [= <- <-]. exact Hgot.
  - specialize (Hb b k eq_refl). destruct k as [|k].
    + injection Hs as <- <- <- <- <-. cbn [iph icsize setph]. discriminate.
    + destruct (panics b); [injection Hs as <- <- <- <- <-; cbn [iph icsize]; discriminate|].
      destruct (stop b); [injection Hs as <- <- <- <- <-; cbn [iph icsize]; discriminate|].
      destruct k as [|k]; injection Hs as <- <- <- <- <-; cbn [iph icsize]; [discriminate|].
      intros b' k' [= <- <-]. lia.
  - injection Hs as <- <- <- <- <-. cbn [iph icsize setph]. discriminate.
  - injection Hs as <- <- <- <- <-. cbn [iph icsize setph]. discriminate.
  - injection Hs as <- <- <- <- <-. cbn [iph icsize setph]. discriminate.
Qed.

Lemma istep_HB s t : IGInv s -> Forall HB (iws s) -> Forall HB (iws (istep s t)).
Proof.
  intros G H. destruct t as [|i].
  - unfold MachineIter.istep, MachineIter.isstep, ispawn, iset_sph.
    assert (Hf : forall cu, Forall HB (iws s ++ [ifresh cu])).
    { intros cu. apply Forall_app. split; auto. constructor; [|constructor]. intros b k E. discriminate E. }
    destruct (isph s); [destruct (dospawn _ _)|destruct (nextc _ _)| |]; cbn [iws]; auto.
  - unfold MachineIter.istep.
    destruct (nth_error (iws s) i) as [w|] eqn:En; [|exact H].
    apply nth_error_split in En. destruct En as (l1 & l2 & El & Hi). subst i.
    destruct s as [c g f sk l p cu]; cbn [ictr igate ifront iskipped iws isph icur] in *. subst l.
    destruct (iwstep c g f sk w) as [[[[c' g'] f'] sk'] w'] eqn:Ew.
    rewrite upd_split. apply IGInv_Split in G; auto. destruct G as (GS & _ & _).
    cbn [iws]. apply Forall_app in H. destruct H as [H1 H2]. inversion H2; subst.
    apply Forall_app. split; auto. constructor; auto. eapply iwstep_HB; eauto.
Qed.

Lemma irun_HB s sched : IGInv s -> Forall HB (iws s) -> Forall HB (iws (irun s sched)).
Proof.
  revert s; induction sched as [|t r IH]; intros s G H; simpl; auto.
  apply IH; [apply stepG; auto|apply istep_HB; auto].
Qed.

(** the bound mentions the number of threads and their chunk sizes, not the source *)
Theorem jphi_bound s : IGInv s -> Forall HB (iws s) ->
  jphi s <= 9 * maxt + 3 + sum_list (map (fun w => 6 * icsize w + 8) (iws s)).
Proof.
  intros G Hb. unfold jphi.
  assert (jsum (iws s) <= sum_list (map (fun w => 6 * icsize w + 8) (iws s))).
  { unfold jsum, sum_list. induction Hb as [|w l Hw _ IH]; cbn [map fold_right]; [lia|].
    assert (jpot w <= 6 * icsize w + 8); [|lia].
    unfold jpot. unfold HB in Hw. destruct (iph w) as [| |t got|b [|k]| | |] eqn:E; try lia.
    specialize (Hw b (S k) eq_refl). lia. }
  assert (rank (isph s) <= 3) by (destruct (isph s); cbn; lia).
  lia.
Qed.

(** the early-exit signal closes the gate, for good *)
Definition SkInv (s : isys) : Prop := iskipped s = true -> igate s = Closed.

Lemma iwstep_sk_closed c g f sk w c' g' f' sk' w' :
  iwstep c g f sk w = (c', g', f', sk', w') -> (sk = true -> g = Closed) -> (sk' = true -> g' = Closed).
Proof.
  unfold MachineIter.iwstep. intros Hs H.
  destruct (iph w) as [|t|t got|b k| | |].
  - injection Hs as <- <- <- <- <-. exact H.
  - destruct g as [n| |]; [destruct ordered; [destruct (n =? t)|]| |];
      injection Hs as <- <- <- <- <-; intros E; specialize (H E); congruence.
  - destruct ((got <? icsize w) && (f <? srclen)); [injection Hs as <- <- <- <- <-; exact H|].
    injection Hs as <- <- <- <- <-. intros E. specialize (H E). subst g. reflexivity.
  - destruct k as [|k]; [injection Hs as <- <- <- <- <-; exact H|].
    destruct (panics b); [injection Hs as <- <- <- <- <-; exact H|].
    destruct (stop b); [injection Hs as <- <- <- <- <-; exact H|].
    destruct k; injection Hs as <- <- <- <- <-; exact H.
  - injection Hs as <- <- <- <- <-. reflexivity.
  - injection Hs as <- <- <- <- <-. exact H.
  - injection Hs as <- <- <- <- <-. exact H.
Qed.

Lemma istep_SkInv s t : SkInv s -> SkInv (istep s t).
Proof.
  intros H. destruct t as [|i].
  - unfold SkInv, MachineIter.istep, MachineIter.isstep, ispawn, iset_sph in *.
    destruct (isph s); [destruct (dospawn _ _)|destruct (nextc _ _)| |]; cbn [iskipped igate]; auto.
  - unfold MachineIter.istep. destruct (nth_error (iws s) i) as [w|]; [|exact H].
    destruct (iwstep (ictr s) (igate s) (ifront s) (iskipped s) w) as [[[[c' g'] f'] sk'] w'] eqn:Ew.
    unfold SkInv in *; cbn [iskipped igate]. eapply iwstep_sk_closed; eauto.
Qed.

Lemma irun_SkInv s sched : SkInv s -> SkInv (irun s sched).
Proof. revert s; induction sched as [|t r IH]; intros s H; simpl; auto. apply IH, istep_SkInv, H. Qed.

End TermIter.
