(** Own: ownership bookkeeping across the [unsafe] islands (C13, C14).

    Safe Rust drops every owned value exactly once; the bookkeeping can only go wrong where
    raw memory is handled:
      - the owning source ([ConIterOfVec]): [take_one] moves a reserved element out,
        [skip_to_end] drops the untaken tail in place, [Drop] drops what the counter has not
        passed, the lazily draining chunk iterator takes and drops what a worker abandons;
      - the k-way merge: [ptr.read] of every (key, value) and a final [set_len(0)];
      - the ordered bag: positional writes, the count check, its [Drop] rule.
    This file accounts for every source position under every schedule, with or without a
    panicking closure, and states the merge / bag facts the other islands need. *)
From OrxPar Require Import Base Spec Machine MachineP Termination Kernels KernelsP.
Set Implicit Arguments.

Section Own.
Variable len : nat.
Variable known : bool.
Variable stop : nat -> bool.
Variable panics : nat -> bool.
Variable dospawn : nat -> option nat -> bool.
Variable nextc : nat -> option nat -> option nat.
Variable maxt : nat.

Hypothesis dospawn_bound : forall n h, dospawn n h = true -> n + 2 <= maxt.
Hypothesis nextc_pos : forall n h c, nextc n h = Some c -> 0 < c.
Hypothesis maxt_pos : 1 <= maxt.

Notation step := (step len known stop panics dospawn nextc).
Notation run := (run len known stop panics dospawn nextc).
Notation GInv := (GInv len stop panics maxt).

(** positions dropped in place by the step that thread [t] is about to take: only
    [skip_to_end] does that, for [counter_before .. len) when the counter was still short *)
Definition skip_drop (s : sys) (t : nat) : list nat :=
  match t with
  | 0 => []
  | S i => match nth_error (ws s) i with
           | Some w => match ph w with
                       | Found => if ctr s <? len then seq (ctr s) (len - ctr s) else []
                       | _ => []
                       end
           | None => []
           end
  end.

(** everything [skip_to_end] calls drop in place along a schedule *)
Fixpoint skip_drops (s : sys) (sched : list nat) : list nat :=
  match sched with
  | [] => []
  | t :: r => skip_drop s t ++ skip_drops (step s t) r
  end.

(** what [Drop for ConIterOfVec] drops when the kernel's frame is left (normally or by
    unwinding): the positions the counter has not passed *)
Definition final_drop (s : sys) : list nat := seq (Nat.min (ctr s) len) (len - Nat.min (ctr s) len).

(** positions moved out of the source buffer: processed, or abandoned and then taken and
    dropped by the draining chunk iterator *)
Definition moved_out (s : sys) : list nat := flat_map seen (ws s) ++ flat_map aband (ws s).

(** invariant linking the drops so far to the machine state *)
Definition DInv (s : sys) (d : list nat) : Prop :=
  (skipped s = true -> d = seq (front s) (len - front s) /\ len <= ctr s) /\
  (skipped s = false -> d = []).

Lemma step_front_after_skip s t : GInv s -> SInv len s -> skipped s = true ->
  front (step s t) = front s /\ skipped (step s t) = true.
Proof.
  intros G S Hsk. pose proof (S_sk S Hsk) as Hc.
  destruct t as [|i]; simpl.
  - unfold sstep, spawn, set_sph. destruct (sph s); [destruct (dospawn _ _)|destruct (nextc _ _)| |]; auto.
  - destruct (nth_error (ws s) i) as [w|]; auto.
    unfold wstep. destruct (ph w) as [|b k| | |].
    + destruct (Nat.ltb_spec (ctr s) len); [lia|]. auto.
    + destruct k as [|k]; auto. destruct (panics b); auto. destruct (stop b); auto. destruct k; auto.
    + auto.
    + auto.
    + auto.
Qed.

(** what a step does to the ghost flag *)
Lemma step_skipped_cases s t :
  (exists i w, t = S i /\ nth_error (ws s) i = Some w /\ ph w = Found /\
               skipped (step s t) = true /\ front (step s t) = front s /\
               ctr (step s t) = Nat.max (ctr s) len) \/
  (skipped (step s t) = skipped s /\ skip_drop s t = []).
Proof.
  destruct t as [|i]; cbn [Machine.step skip_drop].
  - right. split; [|reflexivity]. unfold sstep, spawn, set_sph.
    destruct (sph s); [destruct (dospawn _ _)|destruct (nextc _ _)| |]; reflexivity.
  - destruct (nth_error (ws s) i) as [w|] eqn:En; [|right; auto].
    unfold wstep. destruct (ph w) as [|b k| | |] eqn:Ep.
    + right. destruct (ctr s <? len); auto.
    + right. destruct k as [|k]; auto. destruct (panics b); auto. destruct (stop b); auto. destruct k; auto.
    + left. exists i, w. cbn. repeat split; auto.
    + right. auto.
    + right. auto.
Qed.

Lemma step_DInv s t d : GInv s -> SInv len s -> DInv s d -> DInv (step s t) (d ++ skip_drop s t).
Proof.
  intros G S [D1 D2].
  destruct (skipped s) eqn:Hsk.
  - (* already signalled: nothing more is dropped in place, the frontier is frozen *)
    destruct (D1 eq_refl) as [Hd Hc].
    destruct (step_front_after_skip t G S Hsk) as [Hf Hs].
    assert (Hnil : skip_drop s t = []).
    { unfold skip_drop. destruct t as [|i]; auto. destruct (nth_error (ws s) i) as [w|]; auto.
      destruct (ph w); auto. destruct (Nat.ltb_spec (ctr s) len); auto. lia. }
    rewrite Hnil, app_nil_r. split; [|rewrite Hs; discriminate].
    intros _. rewrite Hf. split; auto.
    pose proof (S_sk (step_SInv known stop panics dospawn nextc maxt_pos t S) Hs). auto.
  - rewrite (D2 eq_refl). cbn [app].
    destruct (step_skipped_cases s t) as [(i & w & -> & En & Ep & E1 & E2 & E3)|[E1 E2]].
    + (* the first skip_to_end *)
      split; [|rewrite E1; discriminate]. intros _. rewrite E2, E3.
      cbn [skip_drop]. rewrite En, Ep.
      destruct (Nat.ltb_spec (ctr s) len) as [Hlt|Hge].
      * rewrite (G_ctr G Hlt). split; [reflexivity|lia].
      * rewrite (G_noskip G Hsk Hge). rewrite Nat.sub_diag. split; [reflexivity|lia].
    + rewrite E2. split; [rewrite E1, Hsk; discriminate|auto].
Qed.

Lemma run_DInv sched : forall s d, GInv s -> SInv len s -> DInv s d ->
  DInv (run s sched) (d ++ skip_drops s sched).
Proof.
  induction sched as [|t r IH]; intros s d G S D; simpl; [now rewrite app_nil_r|].
  rewrite app_assoc. apply IH.
  - apply step_GInv; auto.
  - apply (step_SInv known stop panics dospawn nextc maxt_pos t S).
  - apply step_DInv; auto.
Qed.

Lemma finished_owned (l : list worker) : (forall w, In w l -> finished w) ->
  Permutation (flat_map seen l ++ flat_map aband l) (flat_map owned l).
Proof.
  induction l as [|w t IH]; intros Hfin; [reflexivity|]. cbn [flat_map].
  assert (E : owned w = seen w ++ aband w).
  { unfold owned, pending. destruct (Hfin w (or_introl eq_refl)) as [-> | ->]; reflexivity. }
  rewrite E. rewrite <- IH by (intros x Hx; apply Hfin; right; auto).
  rewrite <- !app_assoc. apply Permutation_app_head.
  rewrite !app_assoc. apply Permutation_app_tail. apply Permutation_app_comm.
Qed.

(** C13 / C14, the owning source: for every schedule and whatever closures panic, when all
    threads have finished every source position has been either moved out of the buffer
    exactly once (and then belongs to safe code) or dropped in place exactly once -- by the
    first [skip_to_end] or by the iterator's [Drop] -- and never both. *)
Theorem source_accounting c0 sched :
  0 < c0 -> all_done (run (init c0) sched) ->
  let s := run (init c0) sched in
  Permutation (moved_out s ++ skip_drops (init c0) sched ++ final_drop s) (seq 0 len).
Proof.
  intros Hc Hd s.
  assert (G : GInv s) by (apply run_GInv; auto; apply init_GInv; auto).
  assert (S : SInv len s) by (apply (run_SInv known stop panics dospawn nextc maxt_pos); apply init_SInv).
  assert (D : DInv s ([] ++ skip_drops (init c0) sched)).
  { apply run_DInv; [apply init_GInv; auto|apply init_SInv|].
    split; [discriminate|reflexivity]. }
  cbn [app] in D. destruct D as [D1 D2].
  (* finished workers hold nothing pending *)
  assert (Hown : Permutation (moved_out s) (seq 0 (front s))).
  { unfold moved_out. rewrite <- (G_perm G). destruct Hd as [_ Hfin]. apply finished_owned. exact Hfin. }
  assert (Htail : skip_drops (init c0) sched ++ final_drop s = seq (front s) (len - front s)).
  { unfold final_drop. destruct (skipped s) eqn:Hsk.
    - destruct (D1 eq_refl) as [-> Hc']. rewrite Nat.min_r by lia. rewrite Nat.sub_diag. apply app_nil_r.
    - rewrite (D2 eq_refl). cbn [app].
      destruct (Nat.lt_ge_cases (ctr s) len) as [Hlt|Hge].
      + rewrite Nat.min_l by lia. now rewrite (G_ctr G Hlt).
      + rewrite Nat.min_r by lia. rewrite (G_noskip G Hsk Hge). reflexivity. }
  rewrite Htail, Hown. pose proof (G_front G).
  replace (seq 0 len) with (seq 0 (front s + (len - front s))) by (f_equal; lia).
  rewrite seq_app. reflexivity.
Qed.

(** no position is both processed and abandoned, nor handled by two workers *)
Theorem moved_out_NoDup s : GInv s -> all_done s -> NoDup (moved_out s).
Proof.
  intros G [_ Hfin].
  assert (P : Permutation (moved_out s) (seq 0 (front s))).
  { unfold moved_out. rewrite <- (G_perm G). apply finished_owned. exact Hfin. }
  eapply Permutation_NoDup; [apply Permutation_sym; exact P|apply seq_NoDup].
Qed.

End Own.

(** ** the merge island: every (key, value) is read out exactly once before the vectors are
    truncated -- the output is a permutation of the vectors' contents *)
Theorem merge_reads_each_once (V : Type) (vs : list (list (nat * nat * V))) :
  Forall (@ksorted V) vs -> NoDup (map fst (concat vs)) -> Permutation (kmerge vs) (concat vs).
Proof.
  intros Hs Hnd. unfold kmerge.
  destruct (@kmerge_fuel_spec V (length (concat vs)) vs Hs (le_n _) Hnd) as [P _]. exact P.
Qed.

(** ** the bag island *)

(** what dropping the ordered bag drops.  [guarded = true]: the bag sits in a [ManuallyDrop]
    while the workers run (src/core/map_col.rs), so leaving by unwinding leaks it.
    [guarded = false]: the bag's own [Drop] runs; if its written positions have gaps it treats
    every slot up to [cap] as initialised. *)
Definition bag_drop_on_unwind (guarded : bool) (written : list nat) (cap : nat) : list nat :=
  if guarded then [] else seq 0 cap.

Definition never_written (written : list nat) (i : nat) : Prop := ~ In i written.

(** C14: with the guard no never-written slot is dropped, whatever was written *)
Theorem guarded_bag_safe written cap i :
  In i (bag_drop_on_unwind true written cap) -> False.
Proof. intros []. Qed.

(** the pinned tree's defect, kept as a refutation of the unguarded policy *)
Theorem unguarded_bag_refuted :
  exists written cap i, In i (bag_drop_on_unwind false written cap) /\ never_written written i.
Proof. exists [0; 2], 4, 1. split; [simpl; auto|]. unfold never_written. simpl. intuition discriminate. Qed.
