(** Machine: the runner (src/core/runner.rs) with its worker tasks (src/core/*.rs task loops)
    over an indexed concurrent iterator (ConIterOfSlice / ConIterOfVec / ConIterOfRange of
    orx-concurrent-iter), as a small-step interleaving semantics.

    Thread 0 is the calling thread (the spawner); thread [i+1] is the [i]-th spawned worker.
    A schedule is a list of thread picks; a pick of a thread that does not exist (yet) or has
    nothing left to do stutters, so every list is a schedule.  One micro-step is at most one
    atomic action on shared state:
      spawner : one [has_more] read with the decision it feeds (spawn / stop / new chunk size)
      worker  : the pull (one [fetch_add]), the processing of one element (local),
                [skip_to_end] (one [fetch_max]).
    The machine is independent of the element values: [stop i] says whether processing source
    position [i] makes a short-circuit kernel exit (always [false] for the other kernels).
    [seen]/[aband]/[pulls]/[front]/[skipped] are ghost state for the proofs and the replays. *)
From OrxPar Require Import Base.
Set Implicit Arguments.

(** [Dead]: the worker's closure panicked; the thread has unwound *)
Inductive phase := Ready | Holding (b k : nat) | Found | Done | Dead.

Record worker := mkW {
  csize : nat;                 (* chunk size handed to the task *)
  ph : phase;
  seen : list nat;             (* positions processed, in processing order *)
  aband : list nat;            (* positions pulled but not processed (after an early exit) *)
  pulls : list (nat * nat)     (* successful pulls (begin, length), in order *)
}.

Inductive sphase := SpLoop (j : nat) | SpLag | SpFinal | SpDone.

Record sys := mkS {
  ctr : nat;                   (* the shared atomic counter *)
  front : nat;                 (* ghost: number of positions handed out *)
  skipped : bool;              (* ghost: skip_to_end has happened *)
  ws : list worker;            (* workers in spawn order *)
  sph : sphase;
  cur : nat                    (* chunk size for the next worker *)
}.

Definition LAG_PERIODICITY : nat := 4.

Section Machine.
Variable len : nat.                            (* length of the source *)
Variable known : bool.                         (* does the source report its length? *)
Variable stop : nat -> bool.
Variable panics : nat -> bool.                 (* processing position [i] panics *)
(** the runner's decisions ([do_spawn], [next_chunk_size]); [has_more] is passed as
    [Some remaining] ([Some 0] = [HasMore::No]) or [None] ([Maybe]) *)
Variable dospawn : nat -> option nat -> bool.
Variable nextc : nat -> option nat -> option nat.

Definition fresh (c : nat) : worker := mkW c Ready [] [] [].

(** [has_more()]: for a source that reports its length, [try_get_len] = len - min(counter, len)
    ([Yes n] / [No]); otherwise [Maybe]. *)
Definition has_more (s : sys) : option nat := if known then Some (len - ctr s) else None.

Definition spawn (s : sys) (ph' : sphase) : sys :=
  mkS (ctr s) (front s) (skipped s) (ws s ++ [fresh (cur s)]) ph' (cur s).

Definition set_sph (s : sys) (ph' : sphase) : sys :=
  mkS (ctr s) (front s) (skipped s) (ws s) ph' (cur s).

Definition sstep (s : sys) : sys :=
  match sph s with
  | SpLoop j =>
      if dospawn (length (ws s)) (has_more s)
      then spawn s (match j with S (S j') => SpLoop (S j') | _ => SpLag end)
      else set_sph s SpFinal
  | SpLag =>
      match nextc (length (ws s)) (has_more s) with
      | None => set_sph s SpFinal
      | Some c => mkS (ctr s) (front s) (skipped s) (ws s) (SpLoop LAG_PERIODICITY) c
      end
  | SpFinal => spawn s SpDone
  | SpDone => s
  end.

(** one micro-step of a worker; returns the new counter, frontier, skip flag and worker *)
Definition wstep (c f : nat) (sk : bool) (w : worker) : nat * nat * bool * worker :=
  match ph w with
  | Ready =>                                            (* fetch_add(csize) *)
      if c <? len
      then let k := Nat.min (csize w) (len - c) in
           (c + csize w, f + k, sk,
            mkW (csize w) (Holding c k) (seen w) (aband w) (pulls w ++ [(c, k)]))
      else (c + csize w, f, sk, mkW (csize w) Done (seen w) (aband w) (pulls w))
  | Holding b 0 => (c, f, sk, mkW (csize w) Ready (seen w) (aband w) (pulls w))
  | Holding b (S k) =>                                  (* process one element, local *)
      if panics b                                       (* unwinding drops the rest of the chunk *)
      then (c, f, sk, mkW (csize w) Dead (seen w ++ [b]) (seq (S b) k ++ aband w) (pulls w))
      else if stop b
      then (c, f, sk, mkW (csize w) Found (seen w ++ [b]) (seq (S b) k ++ aband w) (pulls w))
      else match k with
           | 0 => (c, f, sk, mkW (csize w) Ready (seen w ++ [b]) (aband w) (pulls w))
           | _ => (c, f, sk, mkW (csize w) (Holding (S b) k) (seen w ++ [b]) (aband w) (pulls w))
           end
  | Found =>                                            (* skip_to_end: fetch_max(len) *)
      (Nat.max c len, f, true, mkW (csize w) Done (seen w) (aband w) (pulls w))
  | Done => (c, f, sk, w)
  | Dead => (c, f, sk, w)
  end.

Definition step (s : sys) (t : nat) : sys :=
  match t with
  | 0 => sstep s
  | S i =>
      match nth_error (ws s) i with
      | None => s
      | Some w =>
          let '(c, f, sk, w') := wstep (ctr s) (front s) (skipped s) w in
          mkS c f sk (upd (ws s) i w') (sph s) (cur s)
      end
  end.

Definition run (s : sys) (sched : list nat) : sys := fold_left step sched s.

Definition init (c0 : nat) : sys := mkS 0 0 false [] (SpLoop LAG_PERIODICITY) c0.

Definition finished (w : worker) : Prop := ph w = Done \/ ph w = Dead.
Definition all_done (s : sys) : Prop :=
  sph s = SpDone /\ forall w, In w (ws s) -> finished w.
Definition any_dead (s : sys) : bool :=
  existsb (fun w => match ph w with Dead => true | _ => false end) (ws s).

Definition all_doneb (s : sys) : bool :=
  match sph s with SpDone => forallb (fun w => match ph w with Done | Dead => true | _ => false end) (ws s)
                 | _ => false end.

(** round-robin continuation used by the termination theorems and by the replays:
    [n] rounds over threads [0..m] *)
Fixpoint round_robin (m n : nat) : list nat :=
  match n with O => [] | S n' => seq 0 (S m) ++ round_robin m n' end.

End Machine.

Definition pending (w : worker) : list nat :=
  match ph w with Holding b k => seq b k | _ => [] end.
Definition owned (w : worker) : list nat := seen w ++ pending w ++ aband w.
Definition chunks_of (l : list (nat * nat)) : list nat := flat_map (fun p => seq (fst p) (snd p)) l.
