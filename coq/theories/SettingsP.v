(** SettingsP: facts about the settings arithmetic (C08, C11, C15 settings parts). *)
From OrxPar Require Import Base Settings.
From Coq Require Import ZifyBool ZifyN.
Ltac Zify.zify_post_hook ::= Z.div_mod_to_equations.

Local Open Scope N_scope.
Arguments N.mul : simpl never.
Arguments N.add : simpl never.
Arguments N.sub : simpl never.
Arguments N.div : simpl never.
Arguments N.pow : simpl never.
Arguments N.shiftr : simpl never.
Arguments N.leb : simpl never.
Arguments N.ltb : simpl never.
Arguments N.eqb : simpl never.
Arguments N.min : simpl never.
Arguments N.max : simpl never.

Lemma usize_max_eq : usize_max = 2 ^ 64 - 1.
Proof. reflexivity. Qed.

Ltac um := unfold usize_max in *.

(** ** checked operations succeed within range *)

Lemma cmul_some a b : a * b <= usize_max -> cmul a b = Some (a * b).
Proof. unfold cmul. intros H. destruct (N.leb_spec (a * b) usize_max); [reflexivity|lia]. Qed.

Lemma cadd_some a b : a + b <= usize_max -> cadd a b = Some (a + b).
Proof. unfold cadd. intros H. destruct (N.leb_spec (a + b) usize_max); [reflexivity|lia]. Qed.

Lemma csub_some a b : b <= a -> csub a b = Some (a - b).
Proof. unfold csub. intros H. destruct (N.leb_spec b a); [reflexivity|lia]. Qed.

Lemma cdiv_some a b : 0 < b -> cdiv a b = Some (a / b).
Proof. unfold cdiv. intros H. destruct (N.eqb_spec b 0); [lia|reflexivity]. Qed.

(** ** number of threads *)

Lemma calc_num_threads_le_avail len avail nt : calc_num_threads len avail nt <= avail.
Proof. unfold calc_num_threads. destruct nt; lia. Qed.

Lemma calc_num_threads_le_max len avail n : calc_num_threads len avail (NTMax n) <= n.
Proof. unfold calc_num_threads. lia. Qed.

Lemma calc_num_threads_le_len len avail nt : calc_num_threads (Some len) avail nt <= len.
Proof. unfold calc_num_threads. destruct nt; lia. Qed.

(** ** the halving search *)

Lemma shiftr_pow2_S k : N.shiftr (2 ^ N.succ k) 1 = 2 ^ k.
Proof. rewrite N.shiftr_div_pow2, N.pow_succ_r', N.pow_1_r, N.mul_comm, N.div_mul; lia. Qed.

Lemma min_required_len_some task x : x * 8 <= usize_max ->
  exists r, min_required_len task x = Some r.
Proof.
  intros H. destruct task; simpl; unfold cmul;
    match goal with |- context [?a <=? ?b] => destruct (N.leb_spec a b) end;
    [eauto | exfalso; lia | eauto | exfalso; lia | eauto | exfalso; lia].
Qed.

Lemma find_chunk_size_loop_S fuel task len nthreads chunk :
  find_chunk_size_loop (S fuel) task len nthreads chunk =
  (do one_round <- cmul chunk nthreads;
   do req <- min_required_len task one_round;
   if req <=? len then Some chunk
   else if (one_round <=? len) && (chunk <=? DESIRED_MIN_CHUNK_SIZE) then Some chunk
   else if chunk =? 1 then Some chunk
   else find_chunk_size_loop fuel task len nthreads (N.shiftr chunk 1)).
Proof. reflexivity. Qed.

Lemma find_chunk_size_loop_total task len nthreads :
  nthreads * 2 ^ 23 <= usize_max ->
  forall k : nat, (k <= 20)%nat ->
  exists c, find_chunk_size_loop (S k) task len nthreads (2 ^ N.of_nat k) = Some c
            /\ 1 <= c <= 2 ^ N.of_nat k.
Proof.
  intros Hn k. induction k as [|k IH]; intros Hk.
  - change (2 ^ N.of_nat 0) with 1.
    rewrite find_chunk_size_loop_S.
    rewrite cmul_some by (um; lia). cbn [obind].
    destruct (min_required_len_some task (1 * nthreads)) as [r ->]; [um; lia|]. cbn [obind].
    destruct (r <=? len); [exists 1; split; [reflexivity|lia]|].
    destruct ((1 * nthreads <=? len) && (1 <=? DESIRED_MIN_CHUNK_SIZE))%bool; [exists 1; split; [reflexivity|lia]|].
    change (1 =? 1) with true. exists 1; split; [reflexivity|lia].
  - assert (Hp : 2 ^ N.of_nat (S k) <= 2 ^ 20).
    { apply N.pow_le_mono_r; lia. }
    assert (Hp1 : 1 <= 2 ^ N.of_nat (S k)).
    { change 1 with (2 ^ 0). apply N.pow_le_mono_r; lia. }
    remember (2 ^ N.of_nat (S k)) as c eqn:Hc.
    rewrite find_chunk_size_loop_S.
    assert (Hb : c * nthreads * 8 <= usize_max).
    { change (2 ^ 23) with (2 ^ 20 * 8) in Hn. nia. }
    rewrite cmul_some by nia. cbn [obind].
    destruct (min_required_len_some task (c * nthreads)) as [r ->]; [lia|]. cbn [obind].
    destruct (r <=? len); [exists c; split; [reflexivity|lia]|].
    destruct ((c * nthreads <=? len) && (c <=? DESIRED_MIN_CHUNK_SIZE))%bool; [exists c; split; [reflexivity|lia]|].
    destruct (c =? 1); [exists c; split; [reflexivity|lia]|].
    subst c. rewrite Nat2N.inj_succ, shiftr_pow2_S.
    destruct IH as (c & -> & Hc1); [lia|]. exists c. split; [reflexivity|].
    rewrite N.pow_succ_r'. lia.
Qed.

Lemma find_chunk_size_total task len nthreads :
  nthreads * 2 ^ 23 <= usize_max ->
  exists c, find_chunk_size task len nthreads = Some c /\ 1 <= c <= INITIAL_CHUNK_SIZE.
Proof.
  intros Hn. unfold find_chunk_size.
  destruct (@find_chunk_size_loop_total task len nthreads Hn 20%nat) as (c & H & Hc); [lia|].
  change (2 ^ N.of_nat 20) with INITIAL_CHUNK_SIZE in *. eauto.
Qed.

Lemma auto_chunk_size_total task len nthreads :
  nthreads * 2 ^ 23 <= usize_max ->
  exists c, auto_chunk_size task len nthreads = Some c /\ 1 <= c <= INITIAL_CHUNK_SIZE.
Proof.
  intros Hn. unfold auto_chunk_size. destruct len as [[|p]|].
  - exists 1. unfold INITIAL_CHUNK_SIZE. split; [reflexivity|lia].
  - apply find_chunk_size_total; auto.
  - exists 1. unfold INITIAL_CHUNK_SIZE. split; [reflexivity|lia].
Qed.

Lemma div_ceil_total n d : 0 < d -> n <= usize_max - 1 ->
  exists c, div_ceil n d = Some c /\ n <= c * d /\ (0 < n -> 1 <= c /\ (c - 1) * d < n) /\ c <= n.
Proof.
  intros Hd Hn. unfold div_ceil.
  rewrite cdiv_some by lia. cbn [obind].
  assert (Hle : n / d * d <= n) by (rewrite N.mul_comm; apply N.mul_div_le; lia).
  assert (Hq : n / d <= n) by (apply N.div_le_upper_bound; nia).
  assert (Hlt : n < (n / d + 1) * d).
  { pose proof (N.mul_succ_div_gt n d ltac:(lia)). lia. }
  generalize dependent (n / d). intros q Hle Hq Hlt.
  rewrite cmul_some by (um; lia). cbn [obind].
  rewrite csub_some by lia. cbn [obind].
  destruct (N.ltb_spec 0 (n - q * d)) as [Hr|Hr].
  - cbv iota. rewrite cadd_some by (um; lia).
    eexists; split; [reflexivity|]. split; [lia|]. split.
    + intros _. split; [lia|]. replace (q + 1 - 1) with q by lia. lia.
    + destruct (N.eq_dec d 1) as [->|]; [lia|].
      assert (q * 2 <= q * d) by (apply N.mul_le_mono_l; lia). lia.
  - cbv iota. rewrite cadd_some by (um; lia). rewrite N.add_0_r.
    eexists; split; [reflexivity|]. split; [lia|]. split; [|lia].
    intros Hn0. assert (E : n = q * d) by lia.
    destruct (N.eq_dec q 0) as [E0|]; [rewrite E0 in E; lia|].
    split; [lia|]. nia.
Qed.

Lemma min_chunk_size_total len nthreads c :
  1 <= nthreads -> 1 <= c -> c <= usize_max ->
  match len with Some l => l <= usize_max - 1 | None => True end ->
  exists c', min_chunk_size len nthreads c = Some c' /\ 1 <= c' <= c.
Proof.
  intros Hn Hc Hcm Hl. unfold min_chunk_size. destruct len as [[|p]|].
  - exists 1. split; [reflexivity|lia].
  - destruct (N.ltb_spec (N.pos p) (sat_mul nthreads c)) as [Hlt|Hge].
    + destruct (@div_ceil_total (N.pos p) nthreads) as (c' & -> & H1 & H2 & H3); [lia|lia|].
      exists c'. split; [reflexivity|]. destruct H2 as [H2 H4]; [lia|]. split; [lia|].
      unfold sat_mul in Hlt. assert (N.pos p < nthreads * c) by lia. nia.
    + exists c. split; [reflexivity|lia].
  - exists c. split; [reflexivity|lia].
Qed.

(** ** Runner::new is total and yields positive settings (C15, settings part)

    Bounds: [avail <= 2^16] hardware threads, known input length [<= 2^47]
    (the address-space bound on a slice of non-zero-sized elements is larger,
    this is what the proof needs), requested chunk size any non-zero [usize]. *)

Definition chunk_wf (cs : ChunkSize) : Prop :=
  match cs with CSAuto => True | CSMin c => 1 <= c <= usize_max | CSExact c => 1 <= c <= usize_max end.
Definition threads_wf (nt : NumThreads) : Prop :=
  match nt with NTAuto => True | NTMax n => 1 <= n <= usize_max end.
Definition len_wf (len : option N) : Prop :=
  match len with Some l => l <= 2 ^ 47 | None => True end.

Lemma calc_chunk_size_total task len nthreads cs :
  1 <= nthreads <= 2 ^ 16 -> len_wf len -> chunk_wf cs ->
  exists r, calc_chunk_size task len nthreads cs = Some r /\ 1 <= r_inner r <= usize_max
            /\ (forall c, cs = CSExact c -> r = RExact (match len with Some l => N.min c (N.max l 1) | None => c end))
            /\ ((forall c, cs <> CSExact c) -> r_is_exact r = false).
Proof.
  intros Hn Hl Hc. unfold calc_chunk_size.
  assert (Hn23 : nthreads * 2 ^ 23 <= usize_max).
  { um. change (2 ^ 23) with 8388608. change (2 ^ 16) with 65536 in Hn. lia. }
  destruct cs as [|c|c]; cbn [chunk_wf] in Hc.
  - destruct (@auto_chunk_size_total task len nthreads Hn23) as (c & -> & Hc1). cbn [obind].
    unfold validate. cbn [r_inner]. destruct (N.ltb_spec 0 c); [|lia].
    eexists; split; [reflexivity|]. cbn [r_inner]. unfold INITIAL_CHUNK_SIZE in Hc1.
    split; [um; lia|]. split; [discriminate|reflexivity].
  - destruct (@min_chunk_size_total len nthreads c) as (c' & -> & Hc1); try lia.
    { destruct len; [|exact I]. cbn [len_wf] in Hl. um. change (2 ^ 47) with 140737488355328 in Hl. lia. }
    cbn [obind]. unfold validate. cbn [r_inner]. destruct (N.ltb_spec 0 c'); [|lia].
    eexists; split; [reflexivity|]. cbn [r_inner]. split; [lia|]. split; [discriminate|reflexivity].
  - cbn [obind]. unfold validate. cbn [r_inner].
    set (x := match len with Some l => N.min c (N.max l 1) | None => c end).
    assert (1 <= x <= usize_max) by (subst x; destruct len; lia).
    destruct (N.ltb_spec 0 x); [|lia].
    eexists; split; [reflexivity|]. cbn [r_inner]. split; [lia|]. split.
    + intros c0 [= <-]. reflexivity.
    + intros Hne. exfalso. apply (Hne c). reflexivity.
Qed.

Definition runner_wf (r : Runner) : Prop :=
  1 <= r_max_threads r /\ 1 <= r_inner (r_chunk r) <= usize_max /\ len_wf (r_input_len r).

Theorem runner_new_total params task len avail :
  1 <= avail <= 2 ^ 16 -> len_wf len -> chunk_wf (p_chunk params) ->
  exists r, runner_new params task len avail = Some r /\ runner_wf r
            /\ r_input_len r = len
            /\ r_max_threads r = N.max (calc_num_threads len avail (p_threads params)) 1
            /\ r_max_threads r <= avail.
Proof.
  intros Ha Hl Hc. unfold runner_new.
  set (m := N.max (calc_num_threads len avail (p_threads params)) 1).
  assert (Hm : 1 <= m <= 2 ^ 16).
  { subst m. pose proof (calc_num_threads_le_avail len avail (p_threads params)). lia. }
  destruct (@calc_chunk_size_total task len m (p_chunk params)) as (r & -> & Hr & _); auto.
  cbn [obind]. eexists; split; [reflexivity|]. unfold runner_wf; cbn.
  pose proof (calc_num_threads_le_avail len avail (p_threads params)).
  repeat split; try lia; auto.
Qed.

(** With [Max n] at most [n] threads are ever allowed (C08, settings part). *)
Theorem runner_new_max_threads params task len avail n r :
  p_threads params = NTMax n -> 1 <= n ->
  runner_new params task len avail = Some r -> r_max_threads r <= n.
Proof.
  intros Hp Hn. unfold runner_new. rewrite Hp.
  destruct (calc_chunk_size _ _ _ _); cbn [obind]; [|discriminate].
  intros [= <-]. cbn. pose proof (calc_num_threads_le_max len avail n). lia.
Qed.

(** ** do_spawn / next_chunk_size *)

Lemma do_spawn_total r ns h : runner_wf r ->
  do_spawn r ns h = Some (if r_max_threads r - 1 <=? ns then false else negb (hm_is_no h)).
Proof.
  intros (H1 & _). unfold do_spawn. rewrite csub_some by lia. cbn [obind].
  destruct (r_max_threads r - 1 <=? ns); reflexivity.
Qed.

Lemma do_spawn_true_bound r ns h : runner_wf r -> do_spawn r ns h = Some true ->
  ns + 1 < r_max_threads r /\ hm_is_no h = false.
Proof.
  intros Hw. rewrite do_spawn_total by auto.
  destruct (N.leb_spec (r_max_threads r - 1) ns); [discriminate|].
  destruct (hm_is_no h); [discriminate|]. intros _. split; [lia|reflexivity].
Qed.

(** The spawner's view of the remaining length never exceeds the initial length
    ([try_get_len] is non-increasing: an invariant of the source model). *)
Definition hm_wf (r : Runner) (h : HasMore) : Prop :=
  match h, r_input_len r with
  | Some rem, Some len => rem <= len
  | Some rem, None => rem <= usize_max
  | None, _ => True
  end.

Theorem next_chunk_size_total r ns h : runner_wf r -> hm_wf r h ->
  exists o, next_chunk_size r ns h = Some o /\
            match o with
            | None => True
            | Some c => 1 <= c <= usize_max /\ ns + 1 < r_max_threads r /\
                        (forall x, r_chunk r = RExact x -> c = x) /\
                        (exists k, 1 <= k /\ c = k * r_inner (r_chunk r))
            end.
Proof.
  intros (H1 & Hc & Hl) Hh. unfold next_chunk_size.
  destruct h as [[|rem]|].
  - exists None. split; [reflexivity|exact I].
  - unfold next_chunk_size_known_len. rewrite csub_some by lia. cbn [obind].
    destruct (N.leb_spec (r_max_threads r - 1) ns); [exists None; split; [reflexivity|exact I]|].
    destruct (r_chunk r) as [x|x] eqn:Er; cbn [r_inner] in *.
    + destruct (N.eqb_spec ns 0) as [->|Hns].
      * exists (Some x). split; [reflexivity|]. repeat split; try lia.
        -- intros; discriminate.
        -- exists 1. lia.
      * unfold hm_wf in Hh. unfold len_wf in Hl.
        set (len := match r_input_len r with Some l => l | None => usize_max end).
        assert (Hrl : N.pos rem <= len /\ len <= usize_max).
        { subst len. destruct (r_input_len r); [|lia]. um. change (2 ^ 47) with 140737488355328 in Hl. lia. }
        rewrite csub_some by lia. cbn [obind].
        rewrite cdiv_some by lia. cbn [obind].
        rewrite cdiv_some by lia. cbn [obind].
        set (done := len - N.pos rem).
        assert (Hd1 : done / ns <= done) by (apply N.div_le_upper_bound; nia).
        assert (Hd2 : done / ns / x * x <= done / ns) by (rewrite N.mul_comm; apply N.mul_div_le; lia).
        generalize dependent (done / ns / x). intros q Hd2.
        assert (Hb : N.max (N.max q 1) 1 * x <= usize_max).
        { destruct (N.le_gt_cases q 1).
          - replace (N.max (N.max q 1) 1) with 1 by lia. lia.
          - replace (N.max (N.max q 1) 1) with q by lia. subst done. lia. }
        rewrite cmul_some by exact Hb. cbn [obind].
        eexists; split; [reflexivity|]. repeat split; try lia.
        -- intros; discriminate.
        -- exists (N.max (N.max q 1) 1). split; [lia|reflexivity].
    + exists (Some x). split; [reflexivity|]. repeat split; try lia.
      * intros x0 [= <-]. reflexivity.
      * exists 1. lia.
  - unfold next_chunk_size_unknown_len. rewrite csub_some by lia. cbn [obind].
    destruct (N.leb_spec (r_max_threads r - 1) ns); [exists None; split; [reflexivity|exact I]|].
    eexists; split; [reflexivity|]. repeat split; try lia.
    + intros x ->. reflexivity.
    + exists 1. lia.
Qed.

(** C11, settings part: with [Exact c] every chunk size handed to a worker is the
    resolved value; and that value is [c] clamped to the (known) input length. *)
Corollary next_chunk_size_exact r ns h x c : runner_wf r -> hm_wf r h ->
  r_chunk r = RExact x -> next_chunk_size r ns h = Some (Some c) -> c = x.
Proof.
  intros Hw Hh Hx Hn. destruct (@next_chunk_size_total r ns h Hw Hh) as (o & Ho & Hp).
  rewrite Hn in Ho. injection Ho as <-. destruct Hp as (_ & _ & Hp & _). auto.
Qed.

Corollary runner_new_exact params task len avail c r :
  p_chunk params = CSExact c -> 1 <= c <= usize_max -> 1 <= avail <= 2 ^ 16 -> len_wf len ->
  runner_new params task len avail = Some r ->
  r_chunk r = RExact (match len with Some l => N.min c (N.max l 1) | None => c end).
Proof.
  intros Hp Hc Ha Hl. unfold runner_new.
  set (m := N.max (calc_num_threads len avail (p_threads params)) 1).
  assert (Hm : 1 <= m <= 2 ^ 16).
  { subst m. pose proof (calc_num_threads_le_avail len avail (p_threads params)). lia. }
  destruct (@calc_chunk_size_total task len m (p_chunk params)) as (r0 & -> & _ & He & _); auto.
  { rewrite Hp. exact Hc. }
  cbn [obind]. intros [= <-]. cbn. apply He. exact Hp.
Qed.

(** ** parameters (C12, settings part) *)

Lemma is_sequential_iff p : is_sequential p = true <-> p_threads p = NTMax 1.
Proof.
  unfold is_sequential. destruct (p_threads p) as [|n]; [split; discriminate|].
  destruct n as [|[q|q|]]; split; intros H; try discriminate; try reflexivity.
Qed.

Lemma nt_of_usize_spec n : nt_of_usize n = if n =? 0 then NTAuto else NTMax n.
Proof. reflexivity. Qed.
