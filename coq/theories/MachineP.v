(** MachineP: invariants of the runner machine, preserved by every micro-step and therefore
    true after every schedule.  The central one is the partition invariant: the positions
    owned by the workers (processed, pending, abandoned) are exactly [0, front), each owned by
    one worker, each worker's in increasing order. *)
From OrxPar Require Import Base Machine.
Set Implicit Arguments.

(** ** list-update lemmas *)
Lemma upd_Forall {X} (P : X -> Prop) l i x : Forall P l -> P x -> Forall P (upd l i x).
Proof.
  revert i; induction l as [|h t IH]; intros i HF Hx; simpl; [constructor|].
  inversion HF; subst. destruct i; constructor; auto.
Qed.

Lemma flat_map_upd_perm {X Y} (f : X -> list Y) l i w x :
  nth_error l i = Some w ->
  exists R, Permutation (flat_map f l) (f w ++ R) /\ Permutation (flat_map f (upd l i x)) (f x ++ R).
Proof.
  revert i; induction l as [|h t IH]; intros i Hn; [destruct i; discriminate|].
  destruct i as [|i]; simpl in *.
  - inversion Hn; subst. exists (flat_map f t). split; apply Permutation_refl.
  - destruct (IH _ Hn) as [R [H1 H2]]. exists (f h ++ R). split.
    + rewrite H1. rewrite !app_assoc. apply Permutation_app_tail, Permutation_app_comm.
    + rewrite H2. rewrite !app_assoc. apply Permutation_app_tail, Permutation_app_comm.
Qed.

Lemma In_upd {X} (l : list X) i x y : In y (upd l i x) -> y = x \/ In y l.
Proof.
  revert i; induction l as [|h t IH]; intros i H; simpl in *; [tauto|].
  destruct i; simpl in H; destruct H as [H|H]; auto.
  destruct (IH _ H); auto.
Qed.

Lemma In_upd_self {X} (l : list X) i w x : nth_error l i = Some w -> In x (upd l i x).
Proof.
  revert i; induction l as [|h t IH]; intros i H; [destruct i; discriminate|].
  destruct i; simpl in *; [auto | right; eapply IH; eauto].
Qed.

Lemma chunks_of_app l1 l2 : chunks_of (l1 ++ l2) = chunks_of l1 ++ chunks_of l2.
Proof. unfold chunks_of. apply flat_map_app. Qed.

Section Invariants.
Variable len : nat.
Variable known : bool.
Variable stop : nat -> bool.
Variable panics : nat -> bool.
Variable dospawn : nat -> option nat -> bool.
Variable nextc : nat -> option nat -> option nat.
Variable maxt : nat.                     (* max_num_threads *)

Hypothesis dospawn_bound : forall n h, dospawn n h = true -> n + 2 <= maxt.
Hypothesis nextc_pos : forall n h c, nextc n h = Some c -> 0 < c.
Hypothesis maxt_pos : 1 <= maxt.

Notation wstep := (wstep len stop panics).
Notation step := (step len known stop panics dospawn nextc).
Notation run := (run len known stop panics dospawn nextc).
Notation sstep := (sstep len known dospawn nextc).

(** processing position [i] ends the worker's loop: early exit or panic *)
Definition halt (i : nat) : bool := panics i || stop i.
Definition halted_phase (p : phase) : bool :=
  match p with Found | Done | Dead => true | _ => false end.

(** the worker has not met a halting position *)
Definition nostop (w : worker) : Prop :=
  (forall i, In i (seen w) -> halt i = false) /\ aband w = [] /\ ph w <> Found /\ ph w <> Dead.
(** the worker halted at position [m], the last it processed *)
Definition stopped (w : worker) (m : nat) : Prop :=
  exists s0, seen w = s0 ++ [m] /\ halt m = true /\ (forall i, In i s0 -> halt i = false) /\
             (forall i, In i (aband w) -> m < i) /\ halted_phase (ph w) = true /\
             (ph w = Dead -> panics m = true) /\ (panics m = true -> ph w = Dead).

Record WInv (w : worker) : Prop := {
  W_hist : owned w = chunks_of (pulls w);
  W_incr : incr (owned w);
  W_cs : 0 < csize w;
  W_pulls : Forall (fun p => fst p < len /\ snd p = Nat.min (csize w) (len - fst p)) (pulls w);
  W_stop : nostop w \/ exists m, stopped w m
}.

Record GInv (s : sys) : Prop := {
  G_perm : Permutation (flat_map owned (ws s)) (seq 0 (front s));
  G_front : front s <= len;
  G_ctr : ctr s < len -> ctr s = front s;
  G_noskip : skipped s = false -> len <= ctr s -> front s = len;
  G_done : (exists w, In w (ws s) /\ ph w = Done) -> len <= ctr s;
  G_w : Forall WInv (ws s);
  G_sk : skipped s = true -> exists w m, In w (ws s) /\ stopped w m;
  G_cur : 0 < cur s;
  G_sp : match sph s with SpDone => 1 <= length (ws s) <= maxt | _ => length (ws s) + 1 <= maxt end
}.

Ltac perm := repeat rewrite app_nil_r; repeat rewrite <- app_assoc; simpl;
  first [ apply Permutation_refl
        | apply Permutation_app_head; apply Permutation_app_comm
        | idtac ].

Ltac stopped_absurd :=
  let m := fresh "m" in let s0 := fresh "s0" in let Hp := fresh "Hp" in
  intros m (s0 & _ & _ & _ & _ & Hp & _); discriminate.
Ltac fin :=
  repeat split; auto; try lia; try perm; try discriminate;
  try (intros; subst; auto; try (right; lia); fail); try stopped_absurd.
Ltac winv :=
  constructor; cbn [csize ph seen aband pulls]; unfold owned, pending in *;
  cbn [csize ph seen aband pulls seq] in *; rewrite ?app_nil_r in *; auto.

(** what one worker micro-step does, in terms of the state before it *)
Lemma wstep_spec c f sk w c' f' sk' w' :
  wstep c f sk w = (c', f', sk', w') ->
  (c < len -> c = f) -> f <= len -> WInv w -> (forall x, In x (owned w) -> x < f) ->
  WInv w' /\
  Permutation (owned w') (owned w ++ seq f (f' - f)) /\ f <= f' /\ f' <= len /\
  (c' < len -> c' = f') /\ c <= c' /\
  (ph w' = Done -> ph w = Done \/ len <= c') /\
  (sk' = false -> sk = false /\ (len <= c' -> len <= c \/ f' = len)) /\
  (sk' = true -> sk = true \/ exists m, stopped w' m) /\
  (forall m, stopped w m -> stopped w' m).
Proof.
  unfold Machine.wstep. intros H Hc Hf [Wh Wi Wc Wp Ws] Hlt.
  destruct w as [cs p sn ab pl]; unfold owned, pending in *; cbn [csize ph seen aband pulls] in *.
  destruct p as [| b k | | |].
  - (* Ready: the pull *)
    assert (Hns : (forall i, In i sn -> halt i = false) /\ ab = []).
    { destruct Ws as [(H1 & H2 & _)|(m & s0 & _ & _ & _ & _ & Hp & _)]; auto; discriminate. }
    destruct Hns as [Hns ->]. rewrite ?app_nil_r in *. cbn [app] in *.
    destruct (c <? len) eqn:E.
    + apply Nat.ltb_lt in E. injection H as <- <- <- <-.
      specialize (Hc E); subst f.
      replace (c + Nat.min cs (len - c) - c) with (Nat.min cs (len - c)) by lia.
      split; [winv|fin].
      * rewrite chunks_of_app, <- Wh. unfold chunks_of. simpl. now rewrite !app_nil_r.
      * apply incr_app; auto using incr_seq.
        intros x y Hx Hy. apply in_seq in Hy. specialize (Hlt x Hx). lia.
      * apply Forall_app; split; [exact Wp|]. constructor; [|constructor]. simpl.
        split; [exact E|reflexivity].
      * left. repeat split; auto; discriminate.
    + apply Nat.ltb_ge in E. injection H as <- <- <- <-.
      rewrite ?Nat.sub_diag. cbn [seq]. rewrite ?app_nil_r.
      split; [winv|fin].
      left. repeat split; auto; discriminate.
  - (* Holding *)
    assert (Hns : (forall i, In i sn -> halt i = false) /\ ab = []).
    { destruct Ws as [(H1 & H2 & _)|(m & s0 & _ & _ & _ & _ & Hp & _)]; auto; discriminate. }
    destruct Hns as [Hns ->]. rewrite !app_nil_r in *.
    destruct k as [|k].
    + injection H as <- <- <- <-. rewrite ?Nat.sub_diag. cbn [seq]. rewrite ?app_nil_r.
      split; [winv|fin].
      left. repeat split; auto; discriminate.
    + destruct (panics b) eqn:Epn.
      { (* the closure panics: the thread unwinds, dropping the rest of its chunk *)
        injection H as <- <- <- <-. rewrite ?Nat.sub_diag. cbn [seq]. rewrite ?app_nil_r.
        split; [winv|fin].
        -- rewrite <- Wh. rewrite <- app_assoc. reflexivity.
        -- rewrite <- app_assoc. exact Wi.
        -- right. exists b, sn. unfold halt. rewrite Epn. repeat split; auto; try discriminate.
           intros i Hi. apply in_seq in Hi. lia.
        -- rewrite <- app_assoc. reflexivity. }
      destruct (stop b) eqn:Es.
      * injection H as <- <- <- <-. rewrite ?Nat.sub_diag. cbn [seq]. rewrite ?app_nil_r.
        split; [winv|fin].
        -- rewrite <- Wh. rewrite <- app_assoc. reflexivity.
        -- rewrite <- app_assoc. exact Wi.
        -- right. exists b, sn. unfold halt. rewrite Epn, Es. repeat split; auto; try discriminate.
           intros i Hi. apply in_seq in Hi. lia.
        -- rewrite <- app_assoc. reflexivity.
      * assert (Hns' : forall i, In i (sn ++ [b]) -> halt i = false).
        { intros i Hi. apply in_app_or in Hi. destruct Hi as [Hi|[<-|[]]]; auto.
          unfold halt. now rewrite Epn, Es. }
        destruct k as [|k]; injection H as <- <- <- <-; rewrite ?Nat.sub_diag;
          cbn [seq]; rewrite ?app_nil_r.
        -- split; [winv|fin].
           left. repeat split; auto; discriminate.
        -- split; [winv|fin].
           ++ rewrite <- Wh. rewrite <- app_assoc. reflexivity.
           ++ rewrite <- app_assoc. exact Wi.
           ++ left. repeat split; auto; discriminate.
           ++ rewrite <- app_assoc. reflexivity.
  - (* Found: skip_to_end *)
    injection H as <- <- <- <-. rewrite ?Nat.sub_diag. cbn [seq]. rewrite ?app_nil_r.
    assert (Hst : exists m, stopped (mkW cs Found sn ab pl) m).
    { destruct Ws as [(_ & _ & Hp & _)|Hm]; auto. exfalso; apply Hp; reflexivity. }
    destruct Hst as (m & s0 & Hs1 & Hs2 & Hs3 & Hs4 & _ & _ & Hs7). cbn [seen aband ph] in *.
    assert (Hst' : stopped (mkW cs Done sn ab pl) m).
    { exists s0. cbn [seen aband ph]. repeat split; auto; try discriminate.
      intros Hp. specialize (Hs7 Hp). discriminate. }
    split; [winv|fin].
    + right. exists m. exact Hst'.
    + intros _. right. exists m. exact Hst'.
    + intros m' (s1 & E1 & E2 & E3 & E4 & _ & _ & E7). exists s1. cbn [seen aband ph] in *.
      repeat split; auto; try discriminate. intros Hp. specialize (E7 Hp). discriminate.
  - (* Done *)
    injection H as <- <- <- <-. rewrite ?Nat.sub_diag. cbn [seq]. rewrite ?app_nil_r.
    split; [constructor; auto|fin].
  - (* Dead *)
    injection H as <- <- <- <-. rewrite ?Nat.sub_diag. cbn [seq]. rewrite ?app_nil_r.
    split; [constructor; auto|fin].
Qed.

Lemma fresh_WInv c : 0 < c -> WInv (fresh c).
Proof.
  intros Hc. constructor; unfold owned, pending; cbn; auto.
  - constructor.
  - left. repeat split; auto; try discriminate. intros i [].
Qed.

Lemma owned_lt_front s : GInv s -> forall w, In w (ws s) -> forall x, In x (owned w) -> x < front s.
Proof.
  intros G w Hw x Hx.
  assert (In x (flat_map owned (ws s))) by (apply in_flat_map; eauto).
  eapply Permutation_in in H; [|apply (G_perm G)]. apply in_seq in H. lia.
Qed.

Lemma sstep_GInv s : GInv s -> GInv (sstep s).
Proof.
  intros G. destruct G as [Gp Gf Gc Gn Gd Gw Gk Gu Gs] eqn:EG. clear EG.
  unfold Machine.sstep.
  assert (Hspawn : forall ph', length (ws s) + 1 <= maxt ->
     match ph' with SpDone => True | _ => length (ws s) + 2 <= maxt end ->
     GInv (spawn s ph')).
  { intros ph' Hl Hph. constructor; cbn; auto.
    - rewrite flat_map_app. cbn. rewrite app_nil_r. exact Gp.
    - intros (w & Hw & Hd). apply in_app_or in Hw. destruct Hw as [Hw|[<-|[]]]; [|discriminate].
      apply Gd; eauto.
    - apply Forall_app; split; auto. constructor; [|constructor]. apply fresh_WInv. exact Gu.
    - intros Hs. destruct (Gk Hs) as (w & m & Hw & Hm). exists w, m. split; auto. apply in_or_app; auto.
    - rewrite app_length. cbn. destruct ph'; lia. }
  destruct (sph s) as [j| | |] eqn:Ep.
  - destruct (dospawn (length (ws s)) (has_more len known s)) eqn:Ed.
    + apply dospawn_bound in Ed. apply Hspawn; [lia|]. destruct j as [|[|j]]; lia.
    + constructor; cbn; auto.
  - destruct (nextc (length (ws s)) (has_more len known s)) as [c|] eqn:En.
    + constructor; cbn; auto. eapply nextc_pos; eauto.
    + constructor; cbn; auto.
  - apply Hspawn; auto.
  - constructor; auto. rewrite Ep. exact Gs.
Qed.

Lemma step_GInv s t : GInv s -> GInv (step s t).
Proof.
  intros G. destruct t as [|i]; [apply sstep_GInv; exact G|].
  pose proof (owned_lt_front G) as Hlt.
  destruct G as [Hp Hf Hc Hn Hd Hw Hk Hu Hs]. unfold Machine.step.
  destruct (nth_error (ws s) i) as [w|] eqn:En; [|constructor; auto].
  destruct (wstep (ctr s) (front s) (skipped s) w) as [[[c' f'] sk'] w'] eqn:Ew.
  assert (Hin : In w (ws s)) by (eapply nth_error_In; eauto).
  assert (HW : WInv w) by (rewrite Forall_forall in Hw; auto).
  destruct (@wstep_spec _ _ _ _ _ _ _ _ Ew Hc Hf HW (Hlt w Hin))
    as (E0 & E2 & E3 & E4 & E5 & E6 & E7 & E8 & E9 & E10).
  constructor; cbn [ctr front skipped ws sph cur].
  - destruct (flat_map_upd_perm owned _ _ w' En) as [R [P1 P2]].
    rewrite P2, E2. rewrite <- app_assoc.
    rewrite (Permutation_app_comm (seq _ _) R). rewrite app_assoc. rewrite <- P1, Hp.
    replace (seq 0 f') with (seq 0 (front s + (f' - front s))) by (f_equal; lia).
    rewrite seq_app. simpl. apply Permutation_refl.
  - exact E4.
  - exact E5.
  - intros Hs0 Hl. destruct (E8 Hs0) as [Hs1 Hx]. destruct (Hx Hl) as [Hl0|]; auto.
    specialize (Hn Hs1 Hl0). lia.
  - intros [x [Hx Hxd]]. apply In_upd in Hx. destruct Hx as [->|Hx].
    + destruct (E7 Hxd) as [Hwd|]; auto.
      assert (len <= ctr s) by (apply Hd; eauto). lia.
    + assert (len <= ctr s) by (apply Hd; eauto). lia.
  - apply upd_Forall; auto.
  - intros Hsk. destruct (E9 Hsk) as [Hsk0|[m Hm]].
    + destruct (Hk Hsk0) as (x & m & Hx & Hm).
      destruct (In_nth_error _ _ Hx) as [j Hj].
      destruct (Nat.eq_dec j i) as [->|Hne].
      * rewrite En in Hj. injection Hj as <-. exists w', m. split; [eapply In_upd_self; eauto|auto].
      * exists x, m. split; auto. clear - Hj Hne.
        revert i j Hj Hne. induction (ws s) as [|h t IH]; intros i j Hj Hne; [destruct j; discriminate|].
        destruct i, j; simpl in *; try congruence; auto.
        -- right. eapply nth_error_In; eauto.
        -- injection Hj as ->. auto.
        -- right. eapply IH; eauto.
    + exists w', m. split; [eapply In_upd_self; eauto|auto].
  - exact Hu.
  - rewrite upd_length. exact Hs.
Qed.

Theorem run_GInv s sched : GInv s -> GInv (run s sched).
Proof.
  revert s; induction sched as [|i t IH]; intros s H; simpl; auto.
  apply IH, step_GInv, H.
Qed.

Lemma init_GInv c0 : 0 < c0 -> GInv (init c0).
Proof.
  intros Hc. constructor; cbn; auto; try lia; try discriminate.
  intros (w & [] & _).
Qed.


(** ** what a completed run looks like (shared by all kernels and by both machines) *)
Definition nostop_seen (hf : nat -> bool) (w : worker) : Prop := forall i, In i (seen w) -> hf i = false.
Definition stopped_seen (hf : nat -> bool) (w : worker) (m : nat) : Prop :=
  exists s0, seen w = s0 ++ [m] /\ hf m = true /\ (forall i, In i s0 -> hf i = false).

(** [hf i]: processing position [i] made its worker leave the loop *)
Record Outcome (hf : nat -> bool) (wl : list worker) : Prop := {
  O_nonempty : wl <> [];
  O_incr : Forall (fun w => incr (seen w)) wl;
  O_cases : Forall (fun w => nostop_seen hf w \/ exists m, stopped_seen hf w m) wl;
  O_bound : forall w i, In w wl -> In i (seen w) -> i < len;
  (* no early exit: every position is processed by exactly one worker, chunk by chunk *)
  O_full : (forall i, hf i = false) ->
           Permutation (flat_map seen wl) (seq 0 len) /\
           Forall (fun w => seen w = chunks_of (pulls w)) wl;
  (* early exit: below every stopping position some worker stopped *)
  O_find : forall j, j < len -> hf j = true ->
           exists w m, In w wl /\ stopped_seen hf w m /\ m <= j;
  O_disjoint : NoDup (flat_map seen wl)
}.

Lemma incr_app_l l1 l2 : incr (l1 ++ l2) -> incr l1.
Proof. intros H. apply incr_app_inv in H. tauto. Qed.

(** without a panic nobody is [Dead] *)
Lemma no_panic_no_dead s : GInv s -> (forall i, panics i = false) ->
  forall w, In w (ws s) -> ph w <> Dead.
Proof.
  intros G Hnp w Hw Hd. pose proof (G_w G) as Gw. rewrite Forall_forall in Gw.
  destruct (W_stop (Gw w Hw)) as [(_ & _ & _ & H)|(m & s0 & _ & _ & _ & _ & _ & H & _)]; [congruence|].
  rewrite Hnp in H. specialize (H Hd). discriminate.
Qed.

(** a worker that processed a panicking position is [Dead]: the panic is never swallowed *)
Lemma panic_dead s : GInv s -> forall w i, In w (ws s) -> In i (seen w) -> panics i = true -> ph w = Dead.
Proof.
  intros G w i Hw Hi Hp. pose proof (G_w G) as Gw. rewrite Forall_forall in Gw.
  destruct (W_stop (Gw w Hw)) as [(H1 & _)|(m & s0 & E1 & E2 & E3 & _ & _ & _ & E7)].
  - specialize (H1 i Hi). unfold halt in H1. rewrite Hp in H1. discriminate.
  - rewrite E1 in Hi. apply in_app_or in Hi. destruct Hi as [Hi|[<-|[]]].
    + specialize (E3 i Hi). unfold halt in E3. rewrite Hp in E3. discriminate.
    + apply E7. exact Hp.
Qed.

(** the facts about a completed, panic-free run from which every kernel theorem follows;
    shared by the indexed-source machine and the iterator-source machine *)
Lemma outcome_from_facts (wl : list worker) (fr : nat) (sk : bool) :
  wl <> [] ->
  (forall w, In w wl -> ph w = Done) ->
  Permutation (flat_map owned wl) (seq 0 fr) ->
  fr <= len ->
  (sk = false -> fr = len) ->
  (forall w, In w wl -> owned w = chunks_of (pulls w) /\ incr (owned w) /\ (nostop w \/ exists m, stopped w m)) ->
  (sk = true -> exists w m, In w wl /\ stopped w m) ->
  Outcome halt wl.
Proof.
  intros Hne Hdone Gp Gf Gn Gw Gk.
  assert (Hlt : forall w, In w wl -> forall x, In x (owned w) -> x < fr).
  { intros w Hw x Hx. assert (In x (flat_map owned wl)) by (apply in_flat_map; eauto).
    eapply Permutation_in in H; [|exact Gp]. apply in_seq in H. lia. }
  assert (Hown : forall w, In w wl -> owned w = seen w ++ aband w).
  { intros w Hw. unfold owned, pending. rewrite (Hdone w Hw). reflexivity. }
  constructor.
  - exact Hne.
  - apply Forall_forall. intros w Hw. destruct (Gw w Hw) as (_ & Wi & _).
    rewrite (Hown w Hw) in Wi. eapply incr_app_l; eauto.
  - apply Forall_forall. intros w Hw. destruct (Gw w Hw) as (_ & _ & [(H1 & _ & _)|(m & s0 & E1 & E2 & E3 & _)]).
    + left. exact H1.
    + right. exists m, s0. auto.
  - intros w i Hw Hi. assert (i < fr); [|lia].
    apply (Hlt w Hw). rewrite (Hown w Hw). apply in_or_app; auto.
  - intros Hns.
    assert (Hab : forall w, In w (wl) -> aband w = [] /\ seen w = chunks_of (pulls w)).
    { intros w Hw. destruct (Gw w Hw) as (Wh & _ & [(_ & H2 & _)|(m & s0 & _ & E2 & _)]).
      - rewrite (Hown w Hw), H2, app_nil_r in Wh. auto.
      - rewrite Hns in E2. discriminate. }
    assert (Hsk : sk = false).
    { destruct (sk) eqn:E; auto. destruct (Gk eq_refl) as (w & m & _ & s0 & _ & E2 & _).
      rewrite Hns in E2. discriminate. }
    split.
    + rewrite <- (Gn Hsk), <- Gp. erewrite flat_map_ext_in; [reflexivity|].
      intros w Hw. rewrite (Hown w Hw). destruct (Hab w Hw) as [-> _]. now rewrite app_nil_r.
    + apply Forall_forall. intros w Hw. apply (Hab w Hw).
  - intros j Hj Hsj.
    (* some worker stopped below the frontier whenever the frontier is short of j *)
    assert (Hcov : j < fr \/ exists w m, In w (wl) /\ stopped w m /\ m < fr).
    { destruct (sk) eqn:E.
      - right. destruct (Gk eq_refl) as (w & m & Hw & Hm). exists w, m. repeat split; auto.
        apply (Hlt w Hw). rewrite (Hown w Hw). destruct Hm as (s0 & -> & _).
        apply in_or_app; left. apply in_or_app; right; left; auto.
      - left. rewrite (Gn eq_refl). exact Hj. }
    destruct Hcov as [Hjf|(w & m & Hw & Hm & Hmf)].
    + (* j was handed out: its owner saw it or abandoned it *)
      assert (Hin : In j (flat_map owned (wl))).
      { eapply Permutation_in; [apply Permutation_sym; exact Gp|]. apply in_seq. lia. }
      apply in_flat_map in Hin. destruct Hin as (w & Hw & Hjw). rewrite (Hown w Hw) in Hjw.
      destruct (Gw w Hw) as (_ & _ & [(H1 & H2 & _)|(m & s0 & E1 & E2 & E3 & E4 & _)]).
      * rewrite H2, app_nil_r in Hjw. rewrite (H1 j Hjw) in Hsj. discriminate.
      * exists w, m. split; [exact Hw|]. split; [exists s0; auto|].
        apply in_app_or in Hjw. destruct Hjw as [Hjw|Hjw].
        -- rewrite E1 in Hjw. apply in_app_or in Hjw. destruct Hjw as [Hjw|[<-|[]]]; [|lia].
           rewrite (E3 j Hjw) in Hsj. discriminate.
        -- specialize (E4 j Hjw). lia.
    + destruct (Nat.lt_ge_cases j (fr)) as [Hjf|Hjf].
      * (* same argument *)
        assert (Hin : In j (flat_map owned (wl))).
        { eapply Permutation_in; [apply Permutation_sym; exact Gp|]. apply in_seq. lia. }
        apply in_flat_map in Hin. destruct Hin as (w2 & Hw2 & Hjw). rewrite (Hown w2 Hw2) in Hjw.
        destruct (Gw w2 Hw2) as (_ & _ & [(H1 & H2 & _)|(m2 & s0 & E1 & E2 & E3 & E4 & _)]).
        -- rewrite H2, app_nil_r in Hjw. rewrite (H1 j Hjw) in Hsj. discriminate.
        -- exists w2, m2. split; [exact Hw2|]. split; [exists s0; auto|].
           apply in_app_or in Hjw. destruct Hjw as [Hjw|Hjw].
           ++ rewrite E1 in Hjw. apply in_app_or in Hjw. destruct Hjw as [Hjw|[<-|[]]]; [|lia].
              rewrite (E3 j Hjw) in Hsj. discriminate.
           ++ specialize (E4 j Hjw). lia.
      * exists w, m. split; [exact Hw|]. destruct Hm as (s0 & E1 & E2 & E3 & _).
        split; [exists s0; auto|lia].
  - assert (Hnd : NoDup (flat_map owned (wl))).
    { eapply Permutation_NoDup; [apply Permutation_sym; exact Gp|apply seq_NoDup]. }
    eapply NoDup_flat_map_prefix; [|exact Hnd].
    intros w Hw. exists (aband w). apply Hown. exact Hw.
Qed.


Theorem final_outcome s : GInv s -> all_done s -> (forall i, panics i = false) -> Outcome halt (ws s).
Proof.
  intros G [Hsp Hfin] Hnp.
  assert (Hdone : forall w, In w (ws s) -> ph w = Done).
  { intros w Hw. destruct (Hfin w Hw) as [H|H]; auto. exfalso. eapply no_panic_no_dead; eauto. }
  destruct G as [Gp Gf Gc Gn Gd Gw Gk Gu Gs]. rewrite Hsp in Gs.
  assert (Hne : ws s <> []) by (destruct (ws s); [simpl in Gs; lia|discriminate]).
  assert (Hctr : len <= ctr s).
  { apply Gd. destruct (ws s) as [|w t]; [congruence|]. exists w. split; [left; auto|apply Hdone; left; auto]. }
  rewrite Forall_forall in Gw.
  apply (@outcome_from_facts (ws s) (front s) (skipped s)); auto.
  intros w Hw. destruct (Gw w Hw) as [Wh Wi _ _ Ws]. auto.
Qed.

End Invariants.
