(** Pipeline: the eight computation types of src/par/*.rs, the closures they hold, how each
    transformation composes closures (or materialises the upstream stage), how parameters
    travel, and what each type hands to its kernels.

    Closures are modelled with explicit call accounting: a library-composed closure returns,
    besides its value, the list of user-closure calls it made, in order.  A user closure with
    identity [id] logs exactly [(id, argument)].  This makes "every closure runs exactly once
    per element that reaches its stage" a statement about the model (C05, C09, C16). *)
From OrxPar Require Import Base Settings Spec.
Set Implicit Arguments.

Section Pipeline.
Variable V : Type.

Definition clog := list (nat * V).
Definition inj (l : clog) : list (event V) := map (fun c => ECall (fst c) (snd c)) l.

(** closure slots *)
Definition lmap := V -> clog * V.                 (* Fn(In) -> Out *)
Definition lfil := V -> clog * bool.              (* Fn(&Out) -> bool *)
Definition lfm := V -> clog * option V.           (* Fn(In) -> impl Fallible<Out> *)
Definition lfl := V -> list (event V).            (* Fn(In) -> impl IntoIterator: a lazily consumed
                                                     stream of further calls and yielded values *)

(** user closures *)
Definition umap (id : nat) (f : V -> V) : lmap := fun x => ([(id, x)], f x).
Definition ufil (id : nat) (p : V -> bool) : lfil := fun x => ([(id, x)], p x).
Definition ufm (id : nat) (h : V -> option V) : lfm := fun x => ([(id, x)], h x).
Definition ufl (id : nat) (g : V -> list V) : lfl := fun x => ECall id x :: map (@EYield V) (g x).

(** core/default_fns.rs *)
Definition map_self : lmap := fun x => ([], x).
Definition no_filter : lfil := fun _ => ([], true).

(** ** compositions, one per closure expression in src/par/*.rs *)

(* |x| map(map1(x)) *)
Definition comp_map (m1 m2 : lmap) : lmap :=
  fun x => let '(l1, y) := m1 x in let '(l2, z) := m2 y in (l1 ++ l2, z).

(* |x| filter1(x) && filter(x) *)
Definition and_fil (f1 f2 : lfil) : lfil :=
  fun x => let '(l1, b) := f1 x in
           if b then let '(l2, b2) := f2 x in (l1 ++ l2, b2) else (l1, false).

(* |x| flat_map(map(x)) *)
Definition map_then_fl (m : lmap) (fl : lfl) : lfl :=
  fun x => let '(l1, y) := m x in inj l1 ++ fl y.

(* |x| filter_map(map(x)) *)
Definition map_then_fm (m : lmap) (fm : lfm) : lfm :=
  fun x => let '(l1, y) := m x in let '(l2, o) := fm y in (l1 ++ l2, o).

(* |x| match filter(&x) { false => None, true => Some(map(x)) } *)
Definition fil_then_map (f : lfil) (m : lmap) : lfm :=
  fun x => let '(l1, b) := f x in
           if b then let '(l2, y) := m x in (l1 ++ l2, Some y) else (l1, None).

(* |x| match filter(&x) { false => None, true => filter_map(x).into_option() } *)
Definition fil_then_fm (f : lfil) (fm : lfm) : lfm :=
  fun x => let '(l1, b) := f x in
           if b then let '(l2, o) := fm x in (l1 ++ l2, o) else (l1, None).

(* ParMapFilter::map / filter_map *)
Definition mapfil_then_map (m1 : lmap) (f : lfil) (m2 : lmap) : lfm :=
  fun x => let '(l1, y) := m1 x in
           let '(l2, b) := f y in
           if b then let '(l3, z) := m2 y in (l1 ++ l2 ++ l3, Some z) else (l1 ++ l2, None).
Definition mapfil_then_fm (m1 : lmap) (f : lfil) (fm : lfm) : lfm :=
  fun x => let '(l1, y) := m1 x in
           let '(l2, b) := f y in
           if b then let '(l3, o) := fm y in (l1 ++ l2 ++ l3, o) else (l1 ++ l2, None).

(* ParFilterMap::map / filter_map *)
Definition fm_then_map (fm : lfm) (m : lmap) : lfm :=
  fun x => let '(l1, o) := fm x in
           match o with
           | Some y => let '(l2, z) := m y in (l1 ++ l2, Some z)
           | None => (l1, None)
           end.
Definition fm_then_fm (fm1 fm2 : lfm) : lfm :=
  fun x => let '(l1, o) := fm1 x in
           match o with
           | Some y => let '(l2, o2) := fm2 y in (l1 ++ l2, o2)
           | None => (l1, None)
           end.

(* ParFilterMapFilter::map / filter_map *)
Definition fmfil_then_map (fm : lfm) (f : lfil) (m : lmap) : lfm :=
  fun x => let '(l1, o) := fm x in
           match o with
           | Some y => let '(l2, b) := f y in
                       if b then let '(l3, z) := m y in (l1 ++ l2 ++ l3, Some z)
                       else (l1 ++ l2, None)
           | None => (l1, None)
           end.
Definition fmfil_then_fm (fm : lfm) (f : lfil) (fm2 : lfm) : lfm :=
  fun x => let '(l1, o) := fm x in
           match o with
           | Some y => let '(l2, b) := f y in
                       if b then let '(l3, o2) := fm2 y in (l1 ++ l2 ++ l3, o2)
                       else (l1 ++ l2, None)
           | None => (l1, None)
           end.

(* ParFlatMap::map: flat_map(x).into_iter().map(map.clone()) -- lazily, per consumed item *)
Definition fl_then_map (fl : lfl) (m : lmap) : lfl :=
  fun x => bind (fl x) (fun y => let '(l, z) := m y in inj l ++ [EYield z]).
(* ParFlatMap::flat_map: flat_map1(x).into_iter().flat_map(flat_map.clone()) *)
Definition fl_then_fl (fl1 fl2 : lfl) : lfl := fun x => bind (fl1 x) fl2.

(** ** the eight computation types *)
Inductive par :=
| PEmpty
| PMap (m : lmap)
| PFilter (f : lfil)
| PMapFilter (m : lmap) (f : lfil)
| PFilterMap (fm : lfm)
| PFilterMapFilter (fm : lfm) (f : lfil)
| PFlatMap (fl : lfl)
| PFlatMapFilter (fl : lfl) (f : lfil).

Inductive kind := KEmpty | KMap | KFilter | KMapFilter | KFilterMap | KFilterMapFilter
                | KFlatMap | KFlatMapFilter.
Definition kind_of (p : par) : kind :=
  match p with
  | PEmpty => KEmpty | PMap _ => KMap | PFilter _ => KFilter | PMapFilter _ _ => KMapFilter
  | PFilterMap _ => KFilterMap | PFilterMapFilter _ _ => KFilterMapFilter
  | PFlatMap _ => KFlatMap | PFlatMapFilter _ _ => KFlatMapFilter
  end.

Inductive tkind := TMap | TFilter | TFlatMap | TFilterMap.
Definition tkind_of (s : stage V) : tkind :=
  match s with SMap _ _ => TMap | SFilter _ _ => TFilter | SFlatMap _ _ => TFlatMap
             | SFilterMap _ _ => TFilterMap end.

(** what the kernels do for one source element: the trace of calls and yields.
    [map_fil_*] kernels call map then filter; [filtermap_fil_*] call the filter_map closure,
    test [has_value], then the filter; [flatmap_fil_*] run the filter on every produced item. *)
Definition ev_fil (f : lfil) (y : V) : list (event V) :=
  let '(l, b) := f y in inj l ++ (if b then [EYield y] else []).
Definition tr_mf (m : lmap) (f : lfil) (x : V) : list (event V) :=
  let '(l1, y) := m x in inj l1 ++ ev_fil f y.
Definition tr_fmf (fm : lfm) (f : lfil) (x : V) : list (event V) :=
  let '(l1, o) := fm x in inj l1 ++ match o with Some y => ev_fil f y | None => [] end.
Definition tr_flf (fl : lfl) (f : lfil) (x : V) : list (event V) := bind (fl x) (ev_fil f).

(** Which closures each type hands to its kernels (count / reduce / collect / find(no
    predicate)): ParEmpty and ParFilter use [map_self]; ParMap [no_filter]; ParFilterMap and
    ParFlatMap go through [.filter(no_filter)]. *)
Definition trace (p : par) : V -> list (event V) :=
  match p with
  | PEmpty => tr_mf map_self no_filter
  | PMap m => tr_mf m no_filter
  | PFilter f => tr_mf map_self f
  | PMapFilter m f => tr_mf m f
  | PFilterMap fm => tr_fmf fm no_filter
  | PFilterMapFilter fm f => tr_fmf fm f
  | PFlatMap fl => tr_flf fl no_filter
  | PFlatMapFilter fl f => tr_flf fl f
  end.

(** ** transformations *)

(** The eight eager sites: the upstream stage is collected (with the parameters set so far)
    while the computation is being built. *)
Definition eager (k : kind) (t : tkind) : bool :=
  match k, t with
  | KFilter, TFlatMap | KMapFilter, TFlatMap | KFilterMap, TFlatMap | KFilterMapFilter, TFlatMap
  | KFlatMapFilter, TMap | KFlatMapFilter, TFlatMap | KFlatMapFilter, TFilterMap
  | KFlatMap, TFilterMap => true
  | _, _ => false
  end.

Definition fresh_par (s : stage V) : par :=
  match s with
  | SMap id f => PMap (umap id f)
  | SFilter id p => PFilter (ufil id p)
  | SFlatMap id g => PFlatMap (ufl id g)
  | SFilterMap id h => PFilterMap (ufm id h)
  end.

(** closure composition of the 24 lazy transformations (the result for an eager pair is
    irrelevant: [apply_stage] below never uses it) *)
Definition compose (p : par) (s : stage V) : par :=
  match p, s with
  | PEmpty, _ => fresh_par s
  (* ParMap *)
  | PMap m, SMap id f => PMap (comp_map m (umap id f))
  | PMap m, SFlatMap id g => PFlatMap (map_then_fl m (ufl id g))
  | PMap m, SFilter id q => PMapFilter m (ufil id q)
  | PMap m, SFilterMap id h => PFilterMap (map_then_fm m (ufm id h))
  (* ParFilter *)
  | PFilter f, SMap id g => PFilterMap (fil_then_map f (umap id g))
  | PFilter f, SFilter id q => PFilter (and_fil f (ufil id q))
  | PFilter f, SFilterMap id h => PFilterMap (fil_then_fm f (ufm id h))
  (* ParMapFilter *)
  | PMapFilter m f, SMap id g => PFilterMap (mapfil_then_map m f (umap id g))
  | PMapFilter m f, SFilter id q => PMapFilter m (and_fil f (ufil id q))
  | PMapFilter m f, SFilterMap id h => PFilterMap (mapfil_then_fm m f (ufm id h))
  (* ParFilterMap *)
  | PFilterMap fm, SMap id g => PFilterMap (fm_then_map fm (umap id g))
  | PFilterMap fm, SFilter id q => PFilterMapFilter fm (ufil id q)
  | PFilterMap fm, SFilterMap id h => PFilterMap (fm_then_fm fm (ufm id h))
  (* ParFilterMapFilter *)
  | PFilterMapFilter fm f, SMap id g => PFilterMap (fmfil_then_map fm f (umap id g))
  | PFilterMapFilter fm f, SFilter id q => PFilterMapFilter fm (and_fil f (ufil id q))
  | PFilterMapFilter fm f, SFilterMap id h => PFilterMap (fmfil_then_fm fm f (ufm id h))
  (* ParFlatMap *)
  | PFlatMap fl, SMap id g => PFlatMap (fl_then_map fl (umap id g))
  | PFlatMap fl, SFlatMap id g => PFlatMap (fl_then_fl fl (ufl id g))
  | PFlatMap fl, SFilter id q => PFlatMapFilter fl (ufil id q)
  (* ParFlatMapFilter *)
  | PFlatMapFilter fl f, SFilter id q => PFlatMapFilter fl (and_fil f (ufil id q))
  (* eager pairs *)
  | _, _ => fresh_par s
  end.

(** a computation under construction: source contents not yet consumed, the computation type,
    the parameters, and what has already happened at construction time *)
Record pstate := mkPS {
  ps_src : list V;               (* elements of the concurrent iterator the terminal will run over *)
  ps_par : par;
  ps_params : Params;
  ps_clog : clog;                (* user-closure calls made while building *)
  ps_consumed : nat;             (* source elements consumed while building *)
  ps_runs : nat                  (* collect_vec runs performed while building *)
}.

Definition init_state (src : list V) : pstate := mkPS src PEmpty params_default [] 0 0.

(** An eager transformation runs [collect_vec] on the upstream computation.  Its value is the
    sequence of yields of the upstream trace over the whole source (this is what theorem C01
    establishes for the parallel run under every schedule; the sequential run is that by
    definition) and every call of that trace is made at construction time. *)
Definition apply_stage (st : pstate) (s : stage V) : pstate :=
  if eager (kind_of (ps_par st)) (tkind_of s) then
    let tr := flat_map (trace (ps_par st)) (ps_src st) in
    mkPS (yields tr) (fresh_par s) (ps_params st)
         (ps_clog st ++ calls tr) (ps_consumed st + length (ps_src st)) (S (ps_runs st))
  else
    mkPS (ps_src st) (compose (ps_par st) s) (ps_params st)
         (ps_clog st) (ps_consumed st) (ps_runs st).

(** [num_threads(n)] / [chunk_size(n)] with a [usize] (0 = Auto), or [chunk_size(ChunkSize::Min(n))] *)
Inductive op := OStage (s : stage V) | ONumThreads (n : N) | OChunkSize (n : N) | OChunkMin (n : N).

Definition apply_op (st : pstate) (o : op) : pstate :=
  match o with
  | OStage s => apply_stage st s
  | ONumThreads n =>
      mkPS (ps_src st) (ps_par st) (with_num_threads (ps_params st) (nt_of_usize n))
           (ps_clog st) (ps_consumed st) (ps_runs st)
  | OChunkSize n =>
      mkPS (ps_src st) (ps_par st) (with_chunk_size (ps_params st) (cs_of_usize n))
           (ps_clog st) (ps_consumed st) (ps_runs st)
  | OChunkMin n =>
      mkPS (ps_src st) (ps_par st) (with_chunk_size (ps_params st) (CSMin n))
           (ps_clog st) (ps_consumed st) (ps_runs st)
  end.

Definition build (src : list V) (ops : list op) : pstate := fold_left apply_op ops (init_state src).

Definition stages_of (ops : list op) : chain V :=
  flat_map (fun o => match o with OStage s => [s] | _ => [] end) ops.

(** ** terminals *)

(** [find(predicate)] / [find_with_index(predicate)]: the predicate is and-composed after the
    type's own filter (ParMap, ParEmpty: it becomes the filter). *)
Definition with_predicate (p : par) (q : lfil) : par :=
  match p with
  | PEmpty => PMapFilter map_self q
  | PMap m => PMapFilter m q
  | PFilter f => PMapFilter map_self (and_fil f q)
  | PMapFilter m f => PMapFilter m (and_fil f q)
  | PFilterMap fm => PFilterMapFilter fm (and_fil no_filter q)
  | PFilterMapFilter fm f => PFilterMapFilter fm (and_fil f q)
  | PFlatMap fl => PFlatMapFilter fl (and_fil no_filter q)
  | PFlatMapFilter fl f => PFlatMapFilter fl (and_fil f q)
  end.

(** the value of the whole computation as a full consumer sees it *)
Definition denote (st : pstate) : list V := yields (flat_map (trace (ps_par st)) (ps_src st)).
Definition run_log (st : pstate) : clog := calls (flat_map (trace (ps_par st)) (ps_src st)).

End Pipeline.

Arguments PEmpty {V}.
Arguments OStage {V}. Arguments ONumThreads {V}. Arguments OChunkSize {V}. Arguments OChunkMin {V}.
