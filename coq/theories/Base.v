(** Base: small list / arithmetic facts shared by the whole development. *)
From Coq Require Export List Arith NArith ZArith Lia Bool Permutation Sorted.
Export ListNotations.

Set Implicit Arguments.

(** [upd l i x]: replace position [i] of [l] by [x] (no-op when out of range). *)
Fixpoint upd {A} (l : list A) (i : nat) (x : A) : list A :=
  match l, i with
  | [], _ => []
  | _ :: t, 0 => x :: t
  | h :: t, S j => h :: upd t j x
  end.

Lemma upd_length {A} (l : list A) i x : length (upd l i x) = length l.
Proof. revert i; induction l as [|h t IH]; intros [|i]; simpl; auto. Qed.

Lemma upd_app_here {A} (l1 l2 : list A) w w' :
  upd (l1 ++ w :: l2) (length l1) w' = l1 ++ w' :: l2.
Proof. induction l1 as [|h t IH]; simpl; [reflexivity|now rewrite IH]. Qed.

Lemma nth_error_split_at {A} (l : list A) i w :
  nth_error l i = Some w -> exists l1 l2, l = l1 ++ w :: l2 /\ length l1 = i.
Proof. intros H. destruct (nth_error_split l i H) as (l1 & l2 & -> & <-). eauto. Qed.

Lemma nth_error_app_here {A} (l1 l2 : list A) w :
  nth_error (l1 ++ w :: l2) (length l1) = Some w.
Proof. induction l1; simpl; auto. Qed.

Lemma flat_map_app_mid {A B} (f : A -> list B) l1 w l2 :
  flat_map f (l1 ++ w :: l2) = flat_map f l1 ++ f w ++ flat_map f l2.
Proof. rewrite flat_map_app. reflexivity. Qed.

Lemma seq_app_S a k : seq a (S k) = seq a k ++ [a + k].
Proof. now rewrite seq_S. Qed.

Lemma seq_split a k j : seq a (k + j) = seq a k ++ seq (a + k) j.
Proof. apply seq_app. Qed.

Lemma Forall_app_iff {A} (P : A -> Prop) l1 l2 :
  Forall P (l1 ++ l2) <-> Forall P l1 /\ Forall P l2.
Proof. apply Forall_app. Qed.

(** sum of a list of naturals *)
Definition sum_list (l : list nat) : nat := fold_right Nat.add 0 l.

Lemma sum_list_app l1 l2 : sum_list (l1 ++ l2) = sum_list l1 + sum_list l2.
Proof. unfold sum_list. induction l1; simpl; lia. Qed.

Lemma sum_list_perm l1 l2 : Permutation l1 l2 -> sum_list l1 = sum_list l2.
Proof. unfold sum_list. induction 1; simpl; lia. Qed.

(** strictly increasing lists of naturals *)
Definition incr (l : list nat) : Prop := StronglySorted lt l.

Lemma incr_app l1 l2 :
  incr l1 -> incr l2 -> (forall x y, In x l1 -> In y l2 -> x < y) -> incr (l1 ++ l2).
Proof.
  unfold incr. induction l1 as [|a l1 IH]; simpl; intros H1 H2 H; auto.
  inversion H1; subst. constructor.
  - apply IH; auto.
  - apply Forall_app; split; auto. apply Forall_forall; intros y Hy. apply H; auto.
Qed.

Lemma incr_app_inv l1 l2 :
  incr (l1 ++ l2) -> incr l1 /\ incr l2 /\ (forall x y, In x l1 -> In y l2 -> x < y).
Proof.
  unfold incr. induction l1 as [|a l1 IH]; simpl; intros H.
  - repeat split; auto. constructor. intros ? ? [].
  - inversion H as [|? ? Hs Hf]; subst. destruct (IH Hs) as (I1 & I2 & I3).
    apply Forall_app in Hf as [F1 F2]. repeat split; auto.
    + constructor; auto.
    + intros x y [<-|Hx] Hy; [|auto]. rewrite Forall_forall in F2; auto.
Qed.

Lemma incr_seq a k : incr (seq a k).
Proof.
  unfold incr. revert a; induction k as [|k IH]; intros a; simpl; constructor; auto.
  apply Forall_forall; intros y Hy. apply in_seq in Hy. lia.
Qed.

Lemma incr_NoDup l : incr l -> NoDup l.
Proof.
  unfold incr. induction 1 as [|a l Hs IH Hf]; constructor; auto.
  intros Hin. rewrite Forall_forall in Hf. specialize (Hf _ Hin). lia.
Qed.

(** Two strictly increasing lists with the same elements are equal. *)
Lemma incr_perm_eq l1 l2 : incr l1 -> incr l2 -> Permutation l1 l2 -> l1 = l2.
Proof.
  unfold incr. revert l2; induction l1 as [|a l1 IH]; intros l2 H1 H2 P.
  - apply Permutation_nil in P; auto.
  - destruct l2 as [|b l2]; [apply Permutation_sym, Permutation_nil in P; discriminate|].
    inversion H1 as [|? ? S1 F1]; inversion H2 as [|? ? S2 F2]; subst.
    rewrite Forall_forall in F1, F2.
    assert (a = b).
    { assert (Ia : In a (b :: l2)) by (eapply Permutation_in; [exact P|left; auto]).
      assert (Ib : In b (a :: l1)) by (eapply Permutation_in; [apply Permutation_sym; exact P|left; auto]).
      destruct Ia as [->|Ia]; auto. destruct Ib as [->|Ib]; auto.
      specialize (F1 _ Ib). specialize (F2 _ Ia). lia. }
    subst. f_equal. apply IH; auto. eapply Permutation_cons_inv; eauto.
Qed.

(** NoDup over appends *)
Lemma NoDup_app_intro {A} (l1 l2 : list A) :
  NoDup l1 -> NoDup l2 -> (forall x, In x l1 -> ~ In x l2) -> NoDup (l1 ++ l2).
Proof.
  induction l1 as [|a l1 IH]; simpl; intros H1 H2 H; auto.
  inversion H1; subst. constructor.
  - intros Hin. apply in_app_or in Hin. destruct Hin as [Hin|Hin]; [contradiction|].
    apply (H a); auto.
  - apply IH; auto.
Qed.

Lemma NoDup_app_disj {A} (l1 l2 : list A) :
  NoDup (l1 ++ l2) -> forall x, In x l1 -> ~ In x l2.
Proof.
  induction l1 as [|a l1 IH]; simpl; intros H x Hx; [contradiction|].
  inversion H; subst. destruct Hx as [<-|Hx].
  - intros Hin. apply H2. apply in_or_app; auto.
  - apply IH; auto.
Qed.

Lemma NoDup_app_remove_l {A} (l1 l2 : list A) : NoDup (l1 ++ l2) -> NoDup l2.
Proof. induction l1 as [|a l1 IH]; simpl; auto. intros H; inversion H; auto. Qed.

Lemma NoDup_app_remove_r {A} (l1 l2 : list A) : NoDup (l1 ++ l2) -> NoDup l1.
Proof.
  induction l1 as [|a l1 IH]; simpl; intros H; [constructor|]. inversion H; subst.
  constructor; auto. intros Hin; apply H2; apply in_or_app; auto.
Qed.

Lemma NoDup_remove_mid {A} (l1 l2 l3 : list A) : NoDup (l1 ++ l2 ++ l3) -> NoDup (l1 ++ l3).
Proof.
  intros H. apply (@NoDup_app_remove_l _ l2).
  eapply Permutation_NoDup; [|exact H].
  rewrite !app_assoc. apply Permutation_app_tail. apply Permutation_app_comm.
Qed.

Lemma NoDup_flat_map_prefix {A B} (f g : A -> list B) (l : list A) :
  (forall a, In a l -> exists r, f a = g a ++ r) -> NoDup (flat_map f l) -> NoDup (flat_map g l).
Proof.
  induction l as [|a t IH]; simpl; intros Hf H; [constructor|].
  destruct (Hf a (or_introl eq_refl)) as [r Hr]. rewrite Hr, <- app_assoc in H.
  assert (Hinc : forall x, In x (flat_map g t) -> In x (flat_map f t)).
  { intros x Hx. apply in_flat_map in Hx. destruct Hx as (b & Hb & Hx). apply in_flat_map.
    exists b. split; auto. destruct (Hf b (or_intror Hb)) as [r' ->]. apply in_or_app; auto. }
  apply NoDup_app_intro.
  - apply NoDup_remove_mid in H. eapply NoDup_app_remove_r; eauto.
  - apply IH; [intros b Hb; apply Hf; right; auto|].
    apply NoDup_app_remove_l in H. apply NoDup_app_remove_l in H. exact H.
  - intros x Hx Hx2. apply NoDup_remove_mid in H.
    apply (NoDup_app_disj _ _ H x Hx). auto.
Qed.

Lemma flat_map_ext_in {A B} (f g : A -> list B) l :
  (forall x, In x l -> f x = g x) -> flat_map f l = flat_map g l.
Proof.
  induction l as [|a l IH]; simpl; intros H; auto. rewrite H, IH; auto.
Qed.

Lemma nth_error_Some_lt {A} (l : list A) i x : nth_error l i = Some x -> i < length l.
Proof. intros H. apply nth_error_Some. congruence. Qed.
