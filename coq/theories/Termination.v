(** Termination and early exit (C10).

    - After [skip_to_end] no pull succeeds, and the work that remains is bounded by what the
      workers already hold -- independent of how much input remains ([after_signal_*]).
    - Every micro-step either stutters or strictly decreases a measure [phi]; hence no
      schedule contains more than [phi] effective steps, no reachable state is stuck, and after
      any schedule prefix a round-robin continuation completes the run ([rr_completes]).
      After the signal the measure does not depend on the length of the source. *)
From OrxPar Require Import Base Machine MachineP.
Set Implicit Arguments.

Section Termination.
Variable len : nat.
Variable known : bool.
Variable stop : nat -> bool.
Variable panics : nat -> bool.
Variable dospawn : nat -> option nat -> bool.
Variable nextc : nat -> option nat -> option nat.
Variable maxt : nat.

Hypothesis dospawn_bound : forall n h, dospawn n h = true -> n + 2 <= maxt.
Hypothesis nextc_pos : forall n h c, nextc n h = Some c -> 0 < c.
Hypothesis maxt_pos : 1 <= maxt.

Notation wstep := (wstep len stop panics).
Notation step := (step len known stop panics dospawn nextc).
Notation run := (run len known stop panics dospawn nextc).
Notation sstep := (sstep len known dospawn nextc).
Notation GInv := (GInv len stop panics maxt).

(** ** the early-exit signal closes the source *)
Record SInv (s : sys) : Prop := {
  S_sk : skipped s = true -> len <= ctr s;
  S_pend : Forall (fun w => length (pending w) <= csize w) (ws s)
}.

Lemma wstep_SInv c f sk w c' f' sk' w' :
  wstep c f sk w = (c', f', sk', w') ->
  (sk = true -> len <= c) -> length (pending w) <= csize w ->
  (sk' = true -> len <= c') /\ length (pending w') <= csize w' /\ csize w' = csize w.
Proof.
  unfold Machine.wstep, pending. destruct w as [cs p sn ab pl]; cbn [ph csize seen aband pulls].
  intros H Hsk Hp. destruct p as [|b k| | |].
  - destruct (c <? len); injection H as <- <- <- <-; cbn [ph csize]; rewrite ?seq_length; repeat split; auto; try lia.
    + intros E. specialize (Hsk E). lia.
    + intros E. specialize (Hsk E). lia.
  - destruct k as [|k]; [injection H as <- <- <- <-; cbn; auto|].
    rewrite seq_length in Hp.
    destruct (panics b); [injection H as <- <- <- <-; cbn; repeat split; auto; lia|].
    destruct (stop b); [injection H as <- <- <- <-; cbn; repeat split; auto; lia|].
    destruct k as [|k]; injection H as <- <- <- <-; cbn [ph csize]; rewrite ?seq_length; repeat split; auto; cbn; lia.
  - injection H as <- <- <- <-. cbn. repeat split; auto; lia.
  - injection H as <- <- <- <-. cbn. repeat split; auto.
  - injection H as <- <- <- <-. cbn. repeat split; auto.
Qed.

Lemma step_SInv s t : SInv s -> SInv (step s t).
Proof.
  intros [Hs Hp]. destruct t as [|i].
  - unfold Machine.step, Machine.sstep.
    assert (Hspawn : forall ph', SInv (spawn s ph')).
    { intros ph'. constructor; cbn; auto. apply Forall_app; split; auto. constructor; [|constructor]. cbn. lia. }
    destruct (sph s); [destruct (dospawn _ _)| destruct (nextc _ _)| |]; auto; constructor; cbn; auto.
  - unfold Machine.step. destruct (nth_error (ws s) i) as [w|] eqn:En; [|constructor; auto].
    destruct (wstep (ctr s) (front s) (skipped s) w) as [[[c' f'] sk'] w'] eqn:Ew.
    assert (Hw : length (pending w) <= csize w).
    { rewrite Forall_forall in Hp. apply Hp. eapply nth_error_In; eauto. }
    destruct (@wstep_SInv _ _ _ _ _ _ _ _ Ew Hs Hw) as (H1 & H2 & _).
    constructor; cbn; auto. apply upd_Forall; auto.
Qed.

Lemma init_SInv c0 : SInv (init c0).
Proof. constructor; cbn; [discriminate|constructor]. Qed.

Lemma run_SInv s sched : SInv s -> SInv (run s sched).
Proof. revert s; induction sched as [|t r IH]; intros s H; simpl; auto. apply IH, step_SInv, H. Qed.

(** C10 (a): once the signal is out, a pull never succeeds *)
Theorem no_pull_after_signal s i w c' f' sk' w' :
  SInv s -> skipped s = true -> nth_error (ws s) i = Some w -> ph w = Ready ->
  wstep (ctr s) (front s) (skipped s) w = (c', f', sk', w') -> ph w' = Done /\ f' = front s.
Proof.
  intros [Hs _] Hsk _ Hr. unfold Machine.wstep. rewrite Hr.
  specialize (Hs Hsk). destruct (Nat.ltb_spec (ctr s) len); [lia|].
  intros [= <- <- <- <-]. auto.
Qed.

(** ** the measure *)
Definition wpot (w : worker) : nat :=
  match ph w with
  | Ready => 2
  | Holding _ k => 2 * k + 3
  | Found => 1
  | Done => 0
  | Dead => 0
  end.
Definition rank (p : sphase) : nat :=
  match p with SpLoop _ => 2 | SpLag => 3 | SpFinal => 1 | SpDone => 0 end.
Definition wsum (l : list worker) : nat := sum_list (map wpot l).
Definition rem (s : sys) : nat := if skipped s then 0 else 4 * (len - front s).
Definition phi (s : sys) : nat := 5 * (maxt - length (ws s)) + rank (sph s) + wsum (ws s) + rem s.

(** a pick is enabled when the thread exists and has something left to do *)
Definition enabled (s : sys) (t : nat) : bool :=
  match t with
  | 0 => match sph s with SpDone => false | _ => true end
  | S i => match nth_error (ws s) i with
           | Some w => match ph w with Done | Dead => false | _ => true end
           | None => false
           end
  end.

Lemma wsum_app l1 l2 : wsum (l1 ++ l2) = wsum l1 + wsum l2.
Proof. unfold wsum. rewrite map_app. apply sum_list_app. Qed.

Lemma wsum_upd l i w w' : nth_error l i = Some w -> wsum (upd l i w') + wpot w = wsum l + wpot w'.
Proof.
  revert i; induction l as [|h t IH]; intros i H; [destruct i; discriminate|].
  destruct i as [|i]; simpl in *.
  - injection H as ->. unfold wsum; simpl. lia.
  - specialize (IH _ H). unfold wsum in *; simpl. lia.
Qed.

Lemma disabled_stutters s t : enabled s t = false -> step s t = s.
Proof.
  destruct t as [|i]; simpl.
  - unfold Machine.sstep. destruct (sph s); try discriminate. reflexivity.
  - destruct (nth_error (ws s) i) as [w|] eqn:En; [|reflexivity].
    assert (Hupd : forall (l : list worker) j x, nth_error l j = Some x -> upd l j x = l).
    { induction l as [|h r IH]; intros j x Hj; [destruct j; discriminate|].
      destruct j; simpl in *; [injection Hj as ->; reflexivity|]. f_equal. apply IH; auto. }
    destruct w as [cs p sn ab pl]; cbn. destruct p; try discriminate; intros _;
      unfold Machine.wstep; cbn; destruct s; cbn in *; f_equal; apply Hupd; exact En.
Qed.

(** every enabled step strictly decreases the measure *)
Lemma enabled_decreases s t : GInv s -> SInv s -> enabled s t = true -> phi (step s t) < phi s.
Proof.
  intros G HS He. pose proof (G_sp G) as Gs. pose proof (G_front G) as Gf. pose proof (G_ctr G) as Gc.
  destruct t as [|i]; simpl in *.
  - (* spawner *)
    assert (Hfr : forall c, wsum [fresh c] = 2) by reflexivity.
    unfold Machine.sstep, phi, rem. destruct (sph s) as [j| | |] eqn:Ep; try discriminate.
    + destruct (dospawn _ _) eqn:Ed.
      * apply dospawn_bound in Ed. unfold spawn; cbn [ws sph skipped front].
        rewrite app_length, wsum_app, Hfr. cbn [length].
        destruct j as [|[|j]]; cbn [rank]; destruct (skipped s); lia.
      * unfold set_sph; cbn [ws sph skipped front rank]. destruct (skipped s); lia.
    + destruct (nextc _ _); unfold set_sph; cbn [ws sph skipped front rank]; destruct (skipped s); lia.
    + unfold spawn; cbn [ws sph skipped front]. rewrite app_length, wsum_app, Hfr. cbn [length rank].
      destruct (skipped s); lia.
  - (* worker *)
    destruct (nth_error (ws s) i) as [w|] eqn:En; [|discriminate].
    destruct (wstep (ctr s) (front s) (skipped s) w) as [[[c' f'] sk'] w'] eqn:Ew.
    unfold phi, rem; cbn [ws sph skipped front]. rewrite upd_length.
    pose proof (@wsum_upd _ i w w' En) as Hu.
    assert (Hd : wpot w' + (if sk' then 0 else 4 * (len - f')) < wpot w + (if skipped s then 0 else 4 * (len - front s))).
    { clear Hu. unfold Machine.wstep in Ew. destruct w as [cs p sn ab pl]; unfold wpot in *; cbn [ph] in *.
      destruct p as [|b k| | |]; try discriminate.
      - destruct (Nat.ltb_spec (ctr s) len) as [Hlt|Hge].
        + injection Ew as <- <- <- <-. cbn [ph].
          assert (Hsk : skipped s = false).
          { destruct (skipped s) eqn:E; auto. pose proof (S_sk HS E). lia. }
          rewrite Hsk. specialize (Gc Hlt).
          assert (0 < cs). { pose proof (G_w G) as Gw. rewrite Forall_forall in Gw.
            apply (W_cs (Gw _ (nth_error_In _ _ En))). }
          lia.
        + injection Ew as <- <- <- <-. cbn [ph]. destruct (skipped s); lia.
      - destruct k as [|k]; [injection Ew as <- <- <- <-; cbn [ph]; destruct (skipped s); lia|].
        destruct (panics b); [injection Ew as <- <- <- <-; cbn [ph]; destruct (skipped s); lia|].
        destruct (stop b); [injection Ew as <- <- <- <-; cbn [ph]; destruct (skipped s); lia|].
        destruct k as [|k]; injection Ew as <- <- <- <-; cbn [ph]; destruct (skipped s); lia.
      - injection Ew as <- <- <- <-. cbn [ph]. destruct (skipped s); lia. }
    lia.
Qed.

(** ** counting effective steps *)
Fixpoint effective (s : sys) (sched : list nat) : nat :=
  match sched with
  | [] => 0
  | t :: r => (if enabled s t then 1 else 0) + effective (step s t) r
  end.

Lemma step_GInv' s t : GInv s -> GInv (step s t).
Proof. apply step_GInv; auto. Qed.

Theorem effective_bounded s sched : GInv s -> SInv s -> effective s sched + phi (run s sched) <= phi s.
Proof.
  revert s; induction sched as [|t r IH]; intros s G HS; simpl; [lia|].
  specialize (IH (step s t) (step_GInv' t G) (step_SInv t HS)).
  destruct (enabled s t) eqn:E.
  - pose proof (enabled_decreases t G HS E). lia.
  - rewrite (disabled_stutters s t E) in *. lia.
Qed.

(** ** no reachable state is stuck *)
Lemma not_done_enabled s : all_doneb s = false -> exists t, enabled s t = true /\ t <= length (ws s).
Proof.
  unfold all_doneb. destruct (sph s) eqn:Ep; try (intros _; exists 0; simpl; rewrite Ep; split; [reflexivity|lia]).
  intros H.
  assert (exists i w, nth_error (ws s) i = Some w /\ ph w <> Done /\ ph w <> Dead) as (i & w & Hi & Hw & Hw2).
  { clear Ep. induction (ws s) as [|h r IH]; simpl in H; [discriminate|].
    destruct (ph h) eqn:E; try (exists 0, h; split; [reflexivity|split; congruence]).
    - simpl in H. destruct (IH H) as (i & w & Hi & Hw). exists (S i), w. auto.
    - simpl in H. destruct (IH H) as (i & w & Hi & Hw). exists (S i), w. auto. }
  exists (S i). simpl. rewrite Hi. split; [destruct (ph w); congruence|].
  apply nth_error_Some_lt in Hi. lia.
Qed.

Lemma all_doneb_spec s : all_doneb s = true <-> all_done s.
Proof.
  unfold all_doneb, all_done. destruct (sph s); split; try (intros H; discriminate H);
    try (intros [H _]; discriminate H).
  - intros H. split; [reflexivity|]. rewrite forallb_forall in H. intros w Hw. specialize (H w Hw).
    unfold finished. destruct (ph w); try discriminate; auto.
  - intros [_ H]. apply forallb_forall. intros w Hw. destruct (H w Hw) as [-> | ->]; reflexivity.
Qed.

(** other threads' steps never disable a thread *)
Lemma enabled_stable s t t' : t <> t' -> enabled s t = true -> enabled (step s t') t = true.
Proof.
  intros Hne He. destruct t' as [|j].
  - (* the spawner moves: workers are untouched (only appended) *)
    destruct t as [|i]; [congruence|]. simpl in *.
    destruct (nth_error (ws s) i) as [w|] eqn:En; [|discriminate].
    unfold Machine.sstep, spawn, set_sph.
    destruct (sph s); [destruct (dospawn _ _)|destruct (nextc _ _)| |]; cbn;
      rewrite ?(nth_error_app1 _ _ (nth_error_Some_lt _ _ En)), ?En; auto.
  - simpl. destruct (nth_error (ws s) j) as [wj|] eqn:Ej; [|exact He].
    destruct (wstep _ _ _ wj) as [[[c f] sk] w']. destruct t as [|i]; simpl in *; [exact He|].
    assert (i <> j) by congruence.
    replace (nth_error (upd (ws s) j w') i) with (nth_error (ws s) i); [exact He|].
    clear - H. revert i j H. induction (ws s) as [|h r IH]; intros i j H; [destruct j; reflexivity|].
    destruct i, j; simpl; try congruence; auto.
Qed.

Lemma enabled_run_stable l : forall s t, (forall x, In x l -> x <> t) -> enabled s t = true ->
  enabled (run s l) t = true.
Proof.
  induction l as [|x l IH]; intros s t Hl He; simpl; auto.
  apply IH; [intros y Hy; apply Hl; right; auto|].
  apply enabled_stable; auto. intros E. apply (Hl x); [left; auto|auto].
Qed.

(** one round-robin round over threads [0..m] performs at least one effective step while the
    run is not complete *)
Lemma round_progress s m : GInv s -> SInv s -> length (ws s) <= m -> all_doneb s = false ->
  phi (run s (seq 0 (S m))) < phi s.
Proof.
  intros G HS Hm Hnd. destruct (not_done_enabled s Hnd) as (t & He & Ht).
  assert (Hsplit : seq 0 (S m) = seq 0 t ++ t :: seq (S t) (m - t)).
  { replace (S m) with (t + S (m - t)) by lia. rewrite seq_app. simpl. reflexivity. }
  rewrite Hsplit. unfold Machine.run. rewrite fold_left_app. cbn [fold_left].
  fold (run s (seq 0 t)). set (s1 := run s (seq 0 t)).
  assert (G1 : GInv s1) by (apply run_GInv; auto).
  assert (S1 : SInv s1) by (apply run_SInv; auto).
  assert (He1 : enabled s1 t = true).
  { subst s1. apply enabled_run_stable; auto. intros x Hx. apply in_seq in Hx. lia. }
  pose proof (enabled_decreases t G1 S1 He1) as Hdec.
  pose proof (@effective_bounded s (seq 0 t) G HS) as B1.
  pose proof (@effective_bounded (step s1 t) (seq (S t) (m - t)) (step_GInv' t G1) (step_SInv t S1)) as B2.
  fold s1 in B1. fold (run (step s1 t) (seq (S t) (m - t))). lia.
Qed.

Lemma run_ws_bound s sched : GInv s -> length (ws (run s sched)) <= maxt.
Proof.
  intros G. assert (G' : GInv (run s sched)) by (apply run_GInv; auto). pose proof (G_sp G') as H.
  destruct (sph (run s sched)); lia.
Qed.

(** after any reachable state, [phi] rounds of round robin over all possible threads complete
    the run *)
Theorem rr_completes s n : GInv s -> SInv s -> phi s <= n ->
  all_doneb (run s (round_robin maxt n)) = true.
Proof.
  revert s; induction n as [|n IH]; intros s G HS Hn.
  - simpl. destruct (all_doneb s) eqn:E; auto.
    assert (Hm : length (ws s) <= maxt) by (apply (run_ws_bound [] G)).
    pose proof (round_progress G HS Hm E). lia.
  - cbn [round_robin]. unfold Machine.run. rewrite fold_left_app. fold (run s (seq 0 (S maxt))).
    fold (run (run s (seq 0 (S maxt))) (round_robin maxt n)).
    destruct (all_doneb s) eqn:E.
    + (* already complete: everything stutters *)
      assert (Hst : forall l, run s l = s).
      { intros l. induction l as [|t l IHl]; simpl; auto.
        rewrite disabled_stutters; auto.
        apply all_doneb_spec in E. destruct E as [E1 E2]. destruct t as [|i]; simpl.
        - rewrite E1. reflexivity.
        - destruct (nth_error (ws s) i) as [w|] eqn:En; auto.
          destruct (E2 w (nth_error_In _ _ En)) as [-> | ->]; reflexivity. }
      rewrite !Hst. exact E.
    + assert (Hm : length (ws s) <= maxt) by (apply (run_ws_bound [] G)).
      pose proof (round_progress G HS Hm E) as Hp.
      apply IH; [apply run_GInv; auto|apply run_SInv; auto|lia].
Qed.

(** after the signal the measure does not mention the length of the source *)
Theorem phi_after_signal s : SInv s -> skipped s = true ->
  phi s <= 5 * maxt + 3 + sum_list (map (fun w => 2 * csize w + 3) (ws s)).
Proof.
  intros [_ Hp] Hsk. unfold phi, rem. rewrite Hsk.
  assert (wsum (ws s) <= sum_list (map (fun w => 2 * csize w + 3) (ws s))).
  { unfold wsum, sum_list. induction Hp as [|w l Hw _ IH]; cbn [map fold_right]; [lia|].
    unfold wpot, pending in *. destruct (ph w); rewrite ?seq_length in Hw; lia. }
  assert (rank (sph s) <= 3) by (destruct (sph s); cbn; lia).
  generalize dependent (sum_list (map (fun w => 2 * csize w + 3) (ws s))). intros; lia.
Qed.

End Termination.
