(** Extraction of the executable model to OCaml, for the correspondence checks.
    Only [ExtrOcamlBasic] (bool, option, list, prod, unit, sumbool) is used;
    [nat], [N], [Z], [positive] stay inductive; no [Extract Constant]. *)
From OrxPar Require Import Base Settings Spec Pipeline PipelineP Machine Kernels Program Exec.
From Coq Require Import ExtrOcamlBasic DecimalN DecimalZ.
From Coq Require Extraction.

Definition n_to_uint := N.to_uint.
Definition n_of_uint := N.of_uint.
Definition z_to_int := Z.to_int.
Definition z_of_int := Z.of_int.
Definition nat_of_n := N.to_nat.
Definition n_of_nat := N.of_nat.

Extraction Language OCaml.
Extraction "model.ml"
  n_to_uint n_of_uint z_to_int z_of_int nat_of_n n_of_nat
  nt_of_usize cs_of_usize is_sequential
  runner_new do_spawn next_chunk_size r_inner r_is_exact r_max_threads
  exec mkCase kmerge next_kind eager.
