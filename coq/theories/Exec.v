(** Exec: the executable instance of the model over [Z] with a small closure DSL that exists
    twice (here and in the Rust harness).  [exec] runs a whole case -- build the computation,
    resolve the settings, run the runner machine under a schedule (or take the sequential
    branch), compute the terminal's value -- and returns everything the harness observes. *)
From OrxPar Require Import Base Settings SettingsP Spec Pipeline Machine MachineIter Kernels Program.
Set Implicit Arguments.
Local Open Scope Z_scope.

(** ** closure DSL *)
Inductive mapf := Affine (a b : Z) | MapMod (m : Z).
Inductive filf := KeepMod (m r : Z) | KeepLt (t : Z) | KeepGe (t : Z) | KeepAll.
Inductive flatf := Rep (k : nat) (d : Z) | RepMod (m : Z).
Inductive fmf := SomeMod (m r a b : Z).

Definition wrap64 (z : Z) : Z := ((z + 9223372036854775808) mod 18446744073709551616) - 9223372036854775808.

Definition run_map (f : mapf) (x : Z) : Z :=
  match f with Affine a b => a * x + b | MapMod m => x mod m end.
Definition run_fil (f : filf) (x : Z) : bool :=
  match f with KeepMod m r => (x mod m) =? r | KeepLt t => x <? t | KeepGe t => x >=? t | KeepAll => true end.
Fixpoint rep_from (x d : Z) (k : nat) : list Z :=
  match k with O => [] | S k' => x :: rep_from (x + d) d k' end.
Definition run_flat (f : flatf) (x : Z) : list Z :=
  match f with
  | Rep k d => rep_from x d k
  | RepMod m => rep_from (x * 2) 1 (Z.to_nat (x mod m))
  end.
Definition run_fm (f : fmf) (x : Z) : option Z :=
  match f with SomeMod m r a b => if (x mod m) =? r then Some (a * x + b) else None end.

Inductive dop :=
| DMap (f : mapf) | DFilter (f : filf) | DFlatMap (f : flatf) | DFilterMap (f : fmf)
| DNumThreads (n : N) | DChunkSize (n : N) | DChunkMin (n : N).

(** closure identities are the positions of the operations in the chain *)
Fixpoint to_ops (i : nat) (l : list dop) : list (op Z) :=
  match l with
  | [] => []
  | DMap f :: r => OStage (SMap i (run_map f)) :: to_ops (S i) r
  | DFilter f :: r => OStage (SFilter i (run_fil f)) :: to_ops (S i) r
  | DFlatMap f :: r => OStage (SFlatMap i (run_flat f)) :: to_ops (S i) r
  | DFilterMap f :: r => OStage (SFilterMap i (run_fm f)) :: to_ops (S i) r
  | DNumThreads n :: r => ONumThreads n :: to_ops (S i) r
  | DChunkSize n :: r => OChunkSize n :: to_ops (S i) r
  | DChunkMin n :: r => OChunkMin n :: to_ops (S i) r
  end.

(** reduce operators *)
Inductive redop := RAdd | RXor | RMinOp | RMaxOp | RSub | RPoly.
Definition run_red (o : redop) (a b : Z) : Z :=
  match o with
  | RAdd => wrap64 (a + b) | RXor => Z.lxor a b | RMinOp => Z.min a b | RMaxOp => Z.max a b
  | RSub => wrap64 (a - b) | RPoly => wrap64 (a * 31 + b)
  end.

(** ** terminals *)
Inductive target := TVec | TSplit | TFixed.

Inductive terminal :=
| TCollectVec | TCollectSplit | TCollectX
| TCollectInto (t : target) (old : list Z)
| TCount | TForEach
| TReduceT (o : redop)
| TSum | TMinT | TMaxT | TFold (id : Z) (o : redop)
| TMinBy | TMaxBy | TMinKey (m : Z) | TMaxKey (m : Z)
| TFind (q : filf) | TFindIx (q : filf) | TFirst | TFirstIx | TAny (q : filf) | TAll (q : filf).

Inductive result :=
| RList (l : list Z)                (* ordered collection *)
| RBag (l : list Z)                 (* collect_x: order unspecified *)
| RCount (n : nat)
| ROpt (o : option Z)
| ROptIx (o : option (nat * Z))
| RBool (b : bool)
| RUnit
| RPanic.

(** what a run shows *)
Record obs := mkObs {
  o_result : result;
  o_params : Params;
  o_kind : kind;                       (* type of the computation the terminal is called on *)
  o_clog : list (nat * Z);             (* construction-time calls, in order *)
  o_consumed : nat;                    (* source elements consumed at construction time *)
  o_rlog : list (list (nat * Z));      (* run-time calls per thread (0 = caller, then workers) *)
  o_spawned : nat;
  o_chunks : list nat;                 (* chunk size handed to each worker *)
  o_pulls : list (list (nat * nat));   (* successful pulls (begin, length) per worker *)
  o_sequential : bool;
  o_seen : list (list nat);            (* positions processed per worker, in order *)
  o_complete : bool;                   (* the schedule ran the computation to completion *)
  o_runner : option Runner             (* the terminal's run: [Runner::new] under the parameters last set *)
}.

Record case := mkCase {
  c_known : bool;                      (* source reports its length *)
  c_input : list Z;
  c_ops : list dop;
  c_term : terminal;
  c_avail : N;                         (* available_parallelism *)
  c_sched : list nat;                  (* schedule prefix; completed round-robin *)
  c_fuel : nat;                        (* round-robin rounds after the prefix *)
  c_panic : option (nat * Z);          (* the closure with this identity panics on this argument *)
  c_macro : bool;                      (* the schedule is a macro-schedule (deterministic scheduler of the
                                          harness): each pick runs a thread up to its next yield point *)
  c_iter : bool;                       (* the source is a by-value iterator: ticket / handle protocol *)
  c_pre : nat                          (* elements taken from the concurrent iterator before into_par():
                                          the computation sees the rest; reported positions are those of
                                          the original source *)
}.

Definition task_of (t : terminal) : ParTask :=
  match t with
  | TFind _ | TFindIx _ | TFirst | TFirstIx | TAny _ | TAll _ => TEarlyReturn
  | TReduceT _ | TSum | TMinT | TMaxT | TFold _ _ | TMinBy | TMaxBy | TMinKey _ | TMaxKey _ => TReduce
  | _ => TCollect
  end.

(** fold / sum / min / max / *_by(_key) are [reduce] with a fixed operator (src/par_iter.rs);
    [min_by]: Less | Equal => x;  [max_by]: Greater | Equal => x *)
Definition red_family (t : terminal) : option (Z -> Z -> Z) :=
  match t with
  | TReduceT o => Some (run_red o)
  | TSum => Some (fun x y => wrap64 (x + y))
  | TMinT => Some Z.min
  | TMaxT => Some Z.max
  | TFold _ o => Some (run_red o)
  | TMinBy => Some (fun x y => if x <=? y then x else y)
  | TMaxBy => Some (fun x y => if y <=? x then x else y)
  | TMinKey m => Some (fun x y => if (x mod m) <=? (y mod m) then x else y)
  | TMaxKey m => Some (fun x y => if (y mod m) <=? (x mod m) then x else y)
  | _ => None
  end.
(** what the wrapper does with the reduced option *)
Definition red_wrap (t : terminal) (o : option Z) : result :=
  match t with
  | TSum => ROpt (Some (match o with Some v => v | None => 0 end))
  | TFold id _ => ROpt (Some (match o with Some v => v | None => id end))
  | _ => ROpt o
  end.

(** the terminal's own predicate, as a logged filter with the identity [pid] *)
Definition neg_fil (q : filf) (x : Z) : bool := negb (run_fil q x).

Definition term_par (p : par Z) (t : terminal) (pid : nat) : par Z :=
  match t with
  | TFind q | TFindIx q | TAny q => with_predicate p (ufil pid (run_fil q))
  | TAll q => with_predicate p (ufil pid (neg_fil q))
  | TForEach => p
  | _ => p
  end.

Definition is_find (t : terminal) : bool :=
  match t with TFind _ | TFindIx _ | TFirst | TFirstIx | TAny _ | TAll _ => true | _ => false end.

(** ParTask of the kernel that actually runs: count kernels of map/flatmap use Collect,
    filtermap count uses Reduce (src/core/*_cnt.rs) *)
Definition kernel_task (k : kind) (t : terminal) : ParTask :=
  match t with
  | TCount | TForEach =>
      match k with KFilterMap | KFilterMapFilter => TReduce | _ => TCollect end
  | _ => task_of t
  end.

Definition finish (t : terminal) (pe : nat -> list (event Z)) (n : nat) (k : kind) (adv : nat) (wl : list worker)
  : result :=
  match t with
  | TCollectVec | TCollectSplit =>
      match k with
      | KMap => match res_map_col_adv pe adv [] n wl with Some l => RList l | None => RPanic end
      | _ => RList (res_col pe [] wl)
      end
  | TCollectInto _ old =>
      match k with
      | KMap => match res_map_col_adv pe adv old n wl with Some l => RList l | None => RPanic end
      | _ => RList (res_col pe old wl)
      end
  | TCollectX => RBag (res_colx pe wl)
  | TCount => RCount (res_cnt pe wl)
  | TForEach => match res_cnt pe wl with _ => RUnit end
  | TReduceT _ | TSum | TMinT | TMaxT | TFold _ _ | TMinBy | TMaxBy | TMinKey _ | TMaxKey _ =>
      match red_family t with
      | Some f => red_wrap t (res_red pe f wl)
      | None => RPanic
      end
  | TFind _ | TFirst => ROpt (option_map snd (res_find pe wl))
  | TFindIx _ | TFirstIx => ROptIx (res_find pe wl)
  | TAny _ => RBool (match res_find pe wl with Some _ => true | None => false end)
  | TAll _ => RBool (match res_find pe wl with Some _ => false | None => true end)
  end.

(** the sequential branch ([num_threads == Max(1)]): the std chain over the composed closures *)
Definition finish_seq (t : terminal) (tr : list (event Z)) (src : list Z) (p : par Z) : result * list (nat * Z) :=
  match t with
  | TCollectVec | TCollectSplit => (RList (yields tr), calls tr)
  | TCollectInto _ old => (RList (old ++ yields tr), calls tr)
  | TCollectX => (RBag (yields tr), calls tr)
  | TCount => (RCount (length (yields tr)), calls tr)
  | TForEach => (RUnit, calls tr)
  | TReduceT _ | TSum | TMinT | TMaxT | TFold _ _ | TMinBy | TMaxBy | TMinKey _ | TMaxKey _ =>
      (match red_family t with
       | Some f => red_wrap t (reduce_list f (yields tr))
       | None => RPanic
       end, calls tr)
  | _ =>
      (* find: positions in order, stop at the first yield *)
      let fix go (i : nat) (l : list Z) : list (nat * Z) * option (nat * Z) :=
        match l with
        | [] => ([], None)
        | x :: r =>
            let '(pre, o) := upto_yield (trace p x) in
            match o with
            | Some v => (calls pre, Some (i, v))
            | None => let '(lg, res) := go (S i) r in (calls pre ++ lg, res)
            end
        end in
      let '(lg, res) := go 0%nat src in
      (match t with
       | TFind _ | TFirst => ROpt (option_map snd res)
       | TFindIx _ | TFirstIx => ROptIx res
       | TAny _ => RBool (match res with Some _ => true | None => false end)
       | _ => RBool (match res with Some _ => false | None => true end)
       end, lg)
  end.

(** a terminal on [ParEmpty]'s collect family never runs the runner *)
Definition empty_collect (k : kind) (t : terminal) : bool :=
  match k, t with
  | KEmpty, (TCollectVec | TCollectSplit | TCollectX | TCollectInto _ _) => true
  | _, _ => false
  end.

Fixpoint complete (len : nat) (known : bool) (stop panics : nat -> bool) (r : Runner) (rounds : nat) (s : sys) : sys :=
  match rounds with
  | O => s
  | S n =>
      if all_doneb s then s
      else complete len known stop panics r n
             (run len known stop panics (m_dospawn r) (m_nextc r) s (seq 0 (S (length (ws s)))))
  end.

(** *** macro-steps: what one pick of the harness's deterministic scheduler lets a thread do.
    A worker yields right before evaluating an element (and when it is finished); the spawner
    yields right before every [has_more] read.  Each macro-step is a few micro-steps of the same
    thread, so every macro-schedule is a micro-schedule and the theorems apply to it. *)
Definition is_yield (w : worker) : bool :=
  match ph w with Holding _ (S _) | Done | Dead => true | _ => false end.

Local Open Scope nat_scope.
Section Macro.
Variables (len : nat) (known : bool) (stop panics : nat -> bool) (r : Runner).
Notation mstep := (step len known stop panics (m_dospawn r) (m_nextc r)).

Fixpoint wmacro (fuel : nat) (s : sys) (i : nat) : sys :=
  match fuel with
  | O => s
  | S f =>
      let s' := mstep s (S i) in
      match nth_error (ws s') i with
      | Some w => if is_yield w then s' else wmacro f s' i
      | None => s'
      end
  end.

Definition smacro (s : sys) : sys :=
  let s1 := mstep s 0 in
  match sph s1 with SpFinal => mstep s1 0 | _ => s1 end.

Definition macro_step (s : sys) (t : nat) : sys :=
  match t with 0 => smacro s | S i => wmacro 4 s i end.

Definition macro_run (s : sys) (sched : list nat) : sys := fold_left macro_step sched s.

(** the micro-schedule a macro-schedule stands for *)
Fixpoint wmacro_picks (fuel : nat) (s : sys) (i : nat) : list nat :=
  match fuel with
  | O => []
  | S f =>
      let s' := mstep s (S i) in
      S i :: match nth_error (ws s') i with
             | Some w => if is_yield w then [] else wmacro_picks f s' i
             | None => []
             end
  end.
Definition macro_picks (s : sys) (t : nat) : list nat :=
  match t with
  | 0 => let s1 := mstep s 0 in match sph s1 with SpFinal => [0; 0] | _ => [0] end
  | S i => wmacro_picks 4 s i
  end.
Fixpoint expand (s : sys) (sched : list nat) : list nat :=
  match sched with
  | [] => []
  | t :: rest => macro_picks s t ++ expand (macro_step s t) rest
  end.

Lemma wmacro_is_run fuel s i :
  wmacro fuel s i = run len known stop panics (m_dospawn r) (m_nextc r) s (wmacro_picks fuel s i).
Proof.
  revert s; induction fuel as [|f IH]; intros s; [reflexivity|].
  cbn [wmacro wmacro_picks Machine.run fold_left].
  destruct (nth_error (ws (mstep s (S i))) i) as [w|]; [|reflexivity].
  destruct (is_yield w); [reflexivity|]. apply IH.
Qed.

Lemma macro_step_is_run s t :
  macro_step s t = run len known stop panics (m_dospawn r) (m_nextc r) s (macro_picks s t).
Proof.
  destruct t as [|i]; cbn [macro_step macro_picks].
  - unfold smacro. destruct (sph (mstep s 0)); reflexivity.
  - apply wmacro_is_run.
Qed.

(** every macro-schedule is a micro-schedule *)
Theorem macro_run_is_run s sched :
  macro_run s sched = run len known stop panics (m_dospawn r) (m_nextc r) s (expand s sched).
Proof.
  revert s; induction sched as [|t rest IH]; intros s; [reflexivity|].
  cbn [macro_run fold_left expand]. unfold Machine.run. rewrite fold_left_app.
  fold (run len known stop panics (m_dospawn r) (m_nextc r) s (macro_picks s t)).
  rewrite <- macro_step_is_run. apply IH.
Qed.

End Macro.
Local Open Scope Z_scope.

(** *** the same over a by-value iterator source *)
Definition is_iyield (w : iworker) : bool :=
  match iph w with IHolding _ (S _) | IDone | IDead => true | _ => false end.

Local Open Scope nat_scope.
Section IMacro.
Variables (len : nat) (known ordered : bool) (stop panics : nat -> bool) (r : Runner).
Notation imstep := (istep len known ordered stop panics (m_dospawn r) (m_nextc r)).

Fixpoint iwmacro (fuel : nat) (s : isys) (i : nat) : isys :=
  match fuel with
  | O => s
  | S f =>
      let s' := imstep s (S i) in
      match nth_error (iws s') i with
      | Some w => if is_iyield w then s' else iwmacro f s' i
      | None => s'
      end
  end.

Definition ismacro (s : isys) : isys :=
  let s1 := imstep s 0 in
  match isph s1 with SpFinal => imstep s1 0 | _ => s1 end.

(** a pull takes: ticket, acquire, one step per element, release *)
Definition ifuel (s : isys) (i : nat) : nat :=
  match nth_error (iws s) i with Some w => icsize w + 8 | None => 1 end.

Definition imacro_step (s : isys) (t : nat) : isys :=
  match t with 0 => ismacro s | S i => iwmacro (ifuel s i) s i end.
Definition imacro_run (s : isys) (sched : list nat) : isys := fold_left imacro_step sched s.

Fixpoint iwmacro_picks (fuel : nat) (s : isys) (i : nat) : list nat :=
  match fuel with
  | O => []
  | S f =>
      let s' := imstep s (S i) in
      S i :: match nth_error (iws s') i with
             | Some w => if is_iyield w then [] else iwmacro_picks f s' i
             | None => []
             end
  end.
Definition imacro_picks (s : isys) (t : nat) : list nat :=
  match t with
  | 0 => let s1 := imstep s 0 in match isph s1 with SpFinal => [0; 0] | _ => [0] end
  | S i => iwmacro_picks (ifuel s i) s i
  end.
Fixpoint iexpand (s : isys) (sched : list nat) : list nat :=
  match sched with
  | [] => []
  | t :: rest => imacro_picks s t ++ iexpand (imacro_step s t) rest
  end.

Lemma iwmacro_is_run fuel s i :
  iwmacro fuel s i = irun len known ordered stop panics (m_dospawn r) (m_nextc r) s (iwmacro_picks fuel s i).
Proof.
  revert s; induction fuel as [|f IH]; intros s; [reflexivity|].
  cbn [iwmacro iwmacro_picks irun fold_left].
  destruct (nth_error (iws (imstep s (S i))) i) as [w|]; [|reflexivity].
  destruct (is_iyield w); [reflexivity|]. apply IH.
Qed.

Theorem imacro_run_is_run s sched :
  imacro_run s sched = irun len known ordered stop panics (m_dospawn r) (m_nextc r) s (iexpand s sched).
Proof.
  revert s; induction sched as [|t rest IH]; intros s; [reflexivity|].
  cbn [imacro_run fold_left iexpand]. unfold irun. rewrite fold_left_app.
  fold (irun len known ordered stop panics (m_dospawn r) (m_nextc r) s (imacro_picks s t)).
  assert (E : imacro_step s t = irun len known ordered stop panics (m_dospawn r) (m_nextc r) s (imacro_picks s t)).
  { destruct t as [|i]; cbn [imacro_step imacro_picks].
    - unfold ismacro. destruct (isph (imstep s 0)); reflexivity.
    - apply iwmacro_is_run. }
  rewrite <- E. apply IH.
Qed.

Fixpoint icomplete (rounds : nat) (s : isys) : isys :=
  match rounds with
  | O => s
  | S n =>
      if iall_doneb s then s
      else icomplete n (irun len known ordered stop panics (m_dospawn r) (m_nextc r) s (seq 0 (S (length (iws s)))))
  end.

End IMacro.
Local Open Scope Z_scope.

Definition iany_dead (s : isys) : bool :=
  existsb (fun w => match iph w with IDead => true | _ => false end) (iws s).

(** which handle protocol a terminal's kernel uses: count / reduce / collect_x go through
    [into_con_iter_x] (first come), the index-reporting kernels keep the ticket order *)
Definition ordered_of (t : terminal) : bool :=
  match t with
  | TCount | TForEach | TReduceT _ | TCollectX
  | TSum | TMinT | TMaxT | TFold _ _ | TMinBy | TMaxBy | TMinKey _ | TMaxKey _ => false
  | _ => true
  end.

(** does this call list contain the panicking call? *)
Definition hits (pt : option (nat * Z)) (l : list (nat * Z)) : bool :=
  match pt with
  | None => false
  | Some (sid, a) => existsb (fun c => Nat.eqb (fst c) sid && Z.eqb (snd c) a) l
  end.

(** the events of a position up to and including the call that panics (what is logged of an
    element whose closure unwinds) *)
Fixpoint cut_panic (pt : option (nat * Z)) (l : list (event Z)) : list (event Z) :=
  match l with
  | [] => []
  | ECall id a :: r =>
      match pt with
      | Some (sid, pa) => if Nat.eqb id sid && Z.eqb a pa then [ECall id a] else ECall id a :: cut_panic pt r
      | None => ECall id a :: cut_panic pt r
      end
  | e :: r => e :: cut_panic pt r
  end.

Definition shift_res (k : nat) (r : result) : result :=
  match r with
  | ROptIx (Some (i, v)) => ROptIx (Some ((k + i)%nat, v))
  | _ => r
  end.

Definition exec0 (c : case) : obs :=
  let pid := length (c_ops c) in
  let t := c_term c in
  let st0 := build (skipn (c_pre c) (c_input c)) (to_ops 0 (c_ops c)) in
  (* for_each(f) = map(f).count(): the map is applied inside the terminal call, so whatever it
     evaluates eagerly counts as run-time work *)
  let st := match t with
            | TForEach => apply_stage st0 (SMap pid (fun x => x))
            | _ => st0
            end in
  let late := skipn (length (ps_clog st0)) (ps_clog st) in
  let p := term_par (ps_par st) t pid in
  let k := kind_of (ps_par st) in
  let src := ps_src st in
  let n := length src in
  let params := ps_params st in
  let seqmode := is_sequential params || empty_collect k t in
  let pt := c_panic c in
  if hits pt (ps_clog st) then
    (* the closure panics while the computation is being built (eager site) or inside for_each's map *)
    mkObs RPanic params (kind_of (ps_par st0)) (ps_clog st0) (ps_consumed st0) [] 0 [] [] false [] true None
  else if seqmode then
    let tr := flat_map (trace p) src in
    let '(res, lg) := finish_seq t tr src p in
    mkObs (if hits pt lg then RPanic else res) params (kind_of (ps_par st0)) (ps_clog st0) (ps_consumed st0)
          [late ++ lg] 0 [] [] true [] true None
  else
    (* a concurrent iterator over an iterator of unknown length that was advanced past its end
       before into_par() has seen [None] and reports length 0; into_con_iter_x (count / reduce /
       collect_x) wraps the inner iterator afresh and forgets that *)
    let exhausted := ordered_of t && (length (c_input c) <? c_pre c)%nat in
    let input_len := if c_known c || (0 <? ps_runs st)%nat || exhausted then Some (N.of_nat n) else None in
    match runner_new params (kernel_task k t) input_len (c_avail c) with
    | None => mkObs RPanic params (kind_of (ps_par st0)) (ps_clog st0) (ps_consumed st0) [] 0 [] [] false [] true None
    | Some r =>
        let pe := pe_of p src in
        let stop := if is_find t then stop_of p src else (fun _ => false) in
        let known := match input_len with Some _ => true | None => false end in
        let consumed := fun i => if is_find t then calls (fst (upto_yield (pe i))) else calls (pe i) in
        let panics := fun i => hits pt (consumed i) in
        (* an eager site turns the source into a ConIterOfVec: indexed whatever the original source was *)
        let iter_src := c_iter c && (ps_runs st =? 0)%nat in
        let '(wl, done, dead) :=
          if iter_src then
            let ord := ordered_of t in
            let si := if c_macro c
                      then imacro_run n known ord stop panics r (iinit (m_c0 r)) (c_sched c)
                      else icomplete n known ord stop panics r (c_fuel c)
                             (irun n known ord stop panics (m_dospawn r) (m_nextc r) (iinit (m_c0 r)) (c_sched c)) in
            (map wk (iws si), iall_doneb si, iany_dead si)
          else
            let s := if c_macro c
                     then macro_run n known stop panics r (init (m_c0 r)) (c_sched c)
                     else complete n known stop panics r (c_fuel c)
                            (run n known stop panics (m_dospawn r) (m_nextc r) (init (m_c0 r)) (c_sched c)) in
            (ws s, all_doneb s, any_dead s) in
        (* after an eager site the terminal runs over a fresh ConIterOfVec: indices start at 0 again *)
        let adv := if (ps_runs st =? 0)%nat then Nat.min (c_pre c) (length (c_input c)) else 0%nat in
        let res := if done && negb dead then finish t pe n (kind_of p) adv wl else RPanic in
        let pel := fun i => cut_panic pt (pe i) in
        let wlog := if is_find t then map (w_calls_find pel) wl else map (w_calls_full pel) wl in
        mkObs res params (kind_of (ps_par st0)) (ps_clog st0) (ps_consumed st0) (late :: wlog)
              (length wl) (map csize wl) (map pulls wl) false (map seen wl) done (Some r)
    end.

Definition exec (c : case) : obs :=
  let o := exec0 c in
  (* the parallel find kernels report the index the concurrent iterator hands out (original
     position); the sequential path enumerates what is left *)
  mkObs (if o_sequential o then o_result o else shift_res (c_pre c) (o_result o)) (o_params o) (o_kind o) (o_clog o) (o_consumed o) (o_rlog o)
        (o_spawned o) (o_chunks o) (o_pulls o) (o_sequential o) (o_seen o) (o_complete o) (o_runner o).
