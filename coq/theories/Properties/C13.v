(** C13 — owned elements are dropped exactly once on all non-panicking paths. *)
From OrxPar Require Import Base Settings SettingsP Spec Pipeline PipelineP Machine MachineP Termination
  Kernels KernelsP Own Program Master MachineIter MachineIterP TerminationIter MasterIter.

(** The owning source: for every schedule, when all threads have finished, every element of the
    source vector has been moved out of the buffer exactly once (processed by a closure, or
    abandoned after an early exit and then taken and dropped by the draining chunk iterator) or
    dropped in place exactly once (by the first [skip_to_end], or by the iterator's [Drop]) --
    never both, never twice, never neither. *)
Theorem C13_source_elements_exactly_once : forall (r : Runner) (len : nat) (stop : nat -> bool) (sched : list nat),
  runner_wf r -> all_done (mrun r len stop sched) ->
  Permutation (moved_out (mrun r len stop sched)
               ++ skip_drops len (match r_input_len r with Some _ => true | None => false end) stop nopanic
                             (m_dospawn r) (m_nextc r) (init (m_c0 r)) sched
               ++ final_drop len (mrun r len stop sched))
              (seq 0 len).
Proof. intros r len stop sched Hw Hd. apply (mrunp_source_accounting Hw len stop nopanic sched Hd). Qed.
Print Assumptions C13_source_elements_exactly_once.

(** The merge: every (key, value) of the per-thread vectors is read out exactly once before the
    vectors are truncated ... *)
Theorem C13_merge_moves_each_value_once : forall (V : Type) (vs : list (list (nat * nat * V))),
  Forall (@ksorted V) vs -> NoDup (map fst (concat vs)) -> Permutation (kmerge vs) (concat vs).
Proof. exact merge_reads_each_once. Qed.
Print Assumptions C13_merge_moves_each_value_once.

(** ... the bag: every position of [offset, offset + len) is written exactly once, so the count
    check passes and the unwrapped vector holds each produced value once, after the untouched
    previous contents ... *)
Theorem C13_bag_slots_written_once : forall (V : Type) (src : list V) (ops : list (op V)) (r : Runner)
  (sched : list nat) (old : list V),
  runner_wf r -> all_done (full_run r src ops sched) ->
  (forall x, length (yields (trace (tpar src ops) x)) = 1) ->
  res_map_col (tpe src ops) old (tlen src ops) (ws (full_run r src ops sched))
  = Some (old ++ seq_chain (stages_of ops) src).
Proof. intros V src ops r sched old Hw Hd H1. apply par_collect_bag; assumption. Qed.
Print Assumptions C13_bag_slots_written_once.

(** ... and the fragments of collect_x hold every produced value exactly once. *)
Theorem C13_fragments_hold_each_value_once : forall (V : Type) (src : list V) (ops : list (op V)) (r : Runner) (sched : list nat),
  runner_wf r -> all_done (full_run r src ops sched) ->
  Permutation (res_colx (tpe src ops) (ws (full_run r src ops sched))) (seq_chain (stages_of ops) src).
Proof. intros V src ops r sched Hw Hd. apply par_collect_x; assumption. Qed.
Print Assumptions C13_fragments_hold_each_value_once.

(** by-value iterator sources (items are moved out of the user's iterator by [next()]): every
    element yielded so far belongs to exactly one worker and, when all threads have finished, has
    been processed or abandoned (dropped with that worker's buffer) exactly once; what was never
    yielded stays inside the iterator *)
Theorem C13_iterator_elements_exactly_once :
  forall (r : Runner) (len : nat) (ordered : bool) (stop : nat -> bool) (sched : list nat),
  runner_wf r -> iall_done (imrunp r len ordered stop nopanic sched) ->
  Permutation (flat_map iseen (iws (imrunp r len ordered stop nopanic sched))
               ++ flat_map iaband (iws (imrunp r len ordered stop nopanic sched)))
              (seq 0 (ifront (imrunp r len ordered stop nopanic sched)))
  /\ ifront (imrunp r len ordered stop nopanic sched) <= len.
Proof. intros r len ordered stop sched Hw Hd. apply imrunp_source_accounting; assumption. Qed.
Print Assumptions C13_iterator_elements_exactly_once.

(** find on a prefix: positions 0, 1 and 3..5 are processed, 2 was pulled by the finder and
    abandoned, 6..9 are dropped in place by skip_to_end *)
Example C13_example :
  let r := mkRunner (Some 10%N) 2%N (RExact 3%N) in
  let stop := fun i => Nat.eqb i 1 in
  let sched := [0;0;0;1;2;1;1;2;1] ++ round_robin 2 6 in
  let s := mrun r 10 stop sched in
  all_doneb s = true /\ map seen (ws s) = [[0; 1]; [3; 4; 5]] /\ map aband (ws s) = [[2]; []] /\
  skip_drops 10 true stop nopanic (m_dospawn r) (m_nextc r) (init (m_c0 r)) sched = [6; 7; 8; 9] /\
  final_drop 10 s = [].
Proof. vm_compute. repeat split. Qed.

(** an iterator source of six elements, two workers, the second finds a match at position 2 while
    holding [2, 4): position 3 is abandoned (dropped with its buffer), everything else is processed;
    all six elements had been yielded by then *)
Example C13_example_iter :
  let r := mkRunner None 2%N (RExact 2%N) in
  let s := imrunp r 6 true (fun i => Nat.eqb i 2) nopanic ([0; 0] ++ round_robin 2 30) in
  iall_doneb s = true /\ map iseen (iws s) = [[0; 1; 4; 5]; [2]] /\ map iaband (iws s) = [[]; [3]] /\ ifront s = 6.
Proof. vm_compute. repeat split. Qed.
