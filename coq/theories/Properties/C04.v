(** C04 — count and for_each visit every surviving element exactly once. *)
From OrxPar Require Import Base Settings SettingsP Spec Pipeline PipelineP Machine MachineP
  Kernels KernelsP Program Master.

Theorem C04_count : forall (V : Type) (src : list V) (ops : list (op V)) (r : Runner) (sched : list nat),
  runner_wf r -> all_done (full_run r src ops sched) ->
  res_cnt (tpe src ops) (ws (full_run r src ops sched)) = length (seq_chain (stages_of ops) src).
Proof. intros V src ops r sched Hw Hd. apply par_count; assumption. Qed.
Print Assumptions C04_count.

(** [for_each f = map(f).count()]: the calls of the appended stage are, as a multiset, the
    sequential ones (the call log of the whole run is a permutation of the sequential log, and
    the stage [id] occurs in it exactly once per element reaching it). *)
Theorem C04_for_each_calls : forall (V : Type) (src : list V) (ops : list (op V)) (r : Runner) (sched : list nat),
  runner_wf r -> all_done (full_run r src ops sched) ->
  Permutation (ps_clog (build src ops) ++ flat_map (w_calls_full (tpe src ops)) (ws (full_run r src ops sched)))
              (seq_log (stages_of ops) src).
Proof. intros V src ops r sched Hw Hd. apply par_calls; assumption. Qed.
Print Assumptions C04_for_each_calls.

Example C04_example :
  let r := mkRunner (Some 5%N) 3%N (RExact 1%N) in
  let ops := [OStage (SFlatMap 0 (fun x => repeat x x)); OStage (SFilter 1 Nat.odd)] in
  let s := full_run r [1; 2; 3; 4; 5] ops (round_robin 3 16) in
  all_doneb s = true /\ res_cnt (tpe [1; 2; 3; 4; 5] ops) (ws s) = 9.
Proof. vm_compute. split; reflexivity. Qed.

From OrxPar Require Import MachineIter MachineIterP MasterIter.

(** the same over a by-value iterator source *)
Theorem C04_count_iter : forall (V : Type) (src : list V) (ops : list (op V)) (r : Runner)
  (ordered : bool) (sched : list nat),
  runner_wf r -> iall_done (imrun r (tlen src ops) ordered (@nostop) sched) ->
  res_cnt (tpe src ops) (map wk (iws (imrun r (tlen src ops) ordered (@nostop) sched)))
  = length (seq_chain (stages_of ops) src).
Proof. intros V src ops r ordered sched Hw Hd. apply iter_count; assumption. Qed.
Print Assumptions C04_count_iter.
