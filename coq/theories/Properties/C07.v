(** C07 — collect_x returns a permutation of the sequential result. *)
From OrxPar Require Import Base Settings SettingsP Spec Pipeline PipelineP Machine MachineP
  Kernels KernelsP Program Master.

(** For every computation, every well-formed resolved setting and every schedule: the fragments
    appended by [collect_x] hold, as a multiset, exactly the sequential chain's output. *)
Theorem C07_collect_x : forall (V : Type) (src : list V) (ops : list (op V)) (r : Runner) (sched : list nat),
  runner_wf r -> all_done (full_run r src ops sched) ->
  Permutation (res_colx (tpe src ops) (ws (full_run r src ops sched))) (seq_chain (stages_of ops) src).
Proof. intros V src ops r sched Hw Hd. apply par_collect_x; assumption. Qed.
Print Assumptions C07_collect_x.

Example C07_example :
  let r := mkRunner (Some 4%N) 2%N (RMin 1%N) in
  let ops := [OStage (SFlatMap 0 (fun x => [x; x]))] in
  let s := full_run r [7; 8; 9; 7] ops (2 :: 2 :: round_robin 2 12) in
  all_doneb s = true /\ res_colx (tpe [7; 8; 9; 7] ops) (ws s) = [7; 7; 8; 8; 7; 7; 9; 9] /\
  map seen (ws s) = [[0; 1; 3]; [2]].
Proof. vm_compute. repeat split. Qed.

From OrxPar Require Import MachineIter MachineIterP MasterIter.

(** the same over a by-value iterator source *)
Theorem C07_collect_x_iter : forall (V : Type) (src : list V) (ops : list (op V)) (r : Runner)
  (ordered : bool) (sched : list nat),
  runner_wf r -> iall_done (imrun r (tlen src ops) ordered (@nostop) sched) ->
  Permutation (res_colx (tpe src ops) (map wk (iws (imrun r (tlen src ops) ordered (@nostop) sched))))
              (seq_chain (stages_of ops) src).
Proof. intros V src ops r ordered sched Hw Hd. apply iter_collect_x; assumption. Qed.
Print Assumptions C07_collect_x_iter.
