(** C10 — short-circuit terminals stop consuming input once a match is known. *)
From OrxPar Require Import Base Settings SettingsP Spec Pipeline PipelineP Machine MachineP Termination
  Kernels KernelsP Program Master MachineIter MachineIterP TerminationIter MasterIter.

(** (a) every schedule: once [skip_to_end] has happened, a worker's next pull fails and hands
    out nothing -- whatever the remaining input *)
Theorem C10_no_pull_after_signal : forall (r : Runner) (len : nat) (stop : nat -> bool) (sched : list nat)
  i w c' f' sk' w',
  runner_wf r ->
  let s := mrun r len stop sched in
  skipped s = true -> nth_error (ws s) i = Some w -> ph w = Ready ->
  wstep len stop nopanic (ctr s) (front s) (skipped s) w = (c', f', sk', w') ->
  ph w' = Done /\ f' = front s.
Proof.
  intros r len stop sched i w c' f' sk' w' Hw s Hsk Hn Hr Hs.
  exact (@no_pull_after_signal len stop nopanic (m_maxt r) (m_maxt_pos Hw) s i w c' f' sk' w' (mrun_SInv Hw len stop sched) Hsk Hn Hr Hs).
Qed.
Print Assumptions C10_no_pull_after_signal.

(** (a') every schedule: after the signal the whole run needs at most a number of effective
    steps that depends on the thread bound and on the chunk sizes only (a constant number of
    chunks per thread), not on how much input remains *)
Theorem C10_bounded_work_after_signal : forall (r : Runner) (len : nat) (stop : nat -> bool)
  (sched sched2 : list nat),
  runner_wf r -> skipped (mrun r len stop sched) = true ->
  effective len (match r_input_len r with Some _ => true | None => false end) stop nopanic
            (m_dospawn r) (m_nextc r) (mrun r len stop sched) sched2
  <= 5 * m_maxt r + 3 + sum_list (map (fun w => 2 * csize w + 3) (ws (mrun r len stop sched))).
Proof. intros r len stop sched sched2 Hw Hsk. apply mrun_after_signal; assumption. Qed.
Print Assumptions C10_bounded_work_after_signal.

(** (b) no reachable state is stuck: after any schedule prefix a round-robin continuation
    completes the run (and then C02 gives the answer); no schedule has more than
    [5 * max_threads + 2 + 4 * len] effective steps *)
Theorem C10_fair_continuation_completes : forall (r : Runner) (len : nat) (stop : nat -> bool) (sched : list nat),
  runner_wf r ->
  all_done (mrun r len stop (sched ++ round_robin (m_maxt r) (phi len (m_maxt r) (mrun r len stop sched)))).
Proof. intros r len stop sched Hw. apply mrun_completes; assumption. Qed.
Print Assumptions C10_fair_continuation_completes.

Theorem C10_effective_steps_bounded : forall (r : Runner) (len : nat) (stop : nat -> bool) (sched : list nat),
  runner_wf r ->
  effective len (match r_input_len r with Some _ => true | None => false end) stop nopanic
            (m_dospawn r) (m_nextc r) (init (m_c0 r)) sched <= 5 * m_maxt r + 2 + 4 * len.
Proof. intros r len stop sched Hw. apply mrun_effective_bounded; assumption. Qed.
Print Assumptions C10_effective_steps_bounded.

(** the same over by-value iterator sources (ticket / gate protocol, ordered or first come):
    whatever the state reached -- tickets waiting, a reader inside its chunk, the early-exit
    signal out -- a fair continuation completes the run: waiting on the handle is never a
    deadlock; and no schedule has more than [9 * max_threads + 2 + 5 * len] effective steps *)
Theorem C10_fair_continuation_completes_iter :
  forall (r : Runner) (len : nat) (ordered : bool) (stop : nat -> bool) (sched : list nat),
  runner_wf r ->
  iall_done (imrunp r len ordered stop nopanic
               (sched ++ round_robin (m_maxt r) (iphi len (m_maxt r) (imrunp r len ordered stop nopanic sched)))).
Proof. intros r len ordered stop sched Hw. apply imrunp_completes; assumption. Qed.
Print Assumptions C10_fair_continuation_completes_iter.

(** ... and once the early-exit signal is out the remaining work depends on the thread bound and
    the chunk sizes only (at most one chunk being read and one chunk held per thread), whatever
    the source still holds -- the clause that matters for unbounded sources *)
Theorem C10_bounded_work_after_signal_iter :
  forall (r : Runner) (len : nat) (ordered : bool) (stop : nat -> bool) (sched sched2 : list nat),
  runner_wf r -> iskipped (imrunp r len ordered stop nopanic sched) = true ->
  ieffective len (match r_input_len r with Some _ => true | None => false end) ordered stop nopanic
             (m_dospawn r) (m_nextc r) (imrunp r len ordered stop nopanic sched) sched2
  <= 9 * m_maxt r + 3
     + sum_list (map (fun w => 6 * icsize w + 8) (iws (imrunp r len ordered stop nopanic sched))).
Proof.
  intros r len ordered stop sched sched2 Hw Hsk.
  apply imrun_after_close; [assumption|]. apply imrun_signal_closes; assumption.
Qed.
Print Assumptions C10_bounded_work_after_signal_iter.

Theorem C10_effective_steps_bounded_iter :
  forall (r : Runner) (len : nat) (ordered : bool) (stop : nat -> bool) (sched : list nat),
  runner_wf r ->
  ieffective len (match r_input_len r with Some _ => true | None => false end) ordered stop nopanic
             (m_dospawn r) (m_nextc r) (iinit (m_c0 r)) sched <= 9 * m_maxt r + 2 + 5 * len.
Proof. intros r len ordered stop sched Hw. apply imrun_effective_bounded; assumption. Qed.
Print Assumptions C10_effective_steps_bounded_iter.

(** (c) sequential mode: the trace consumed for an element stops at its first yield *)
Theorem C10_sequential_stops_at_match : forall (V : Type) (l : list (event V)) (v : V),
  snd (upto_yield l) = Some v ->
  exists pre post, l = pre ++ EYield v :: post /\ fst (upto_yield l) = pre ++ [EYield v] /\ yields pre = [].
Proof.
  intros V l v. induction l as [|[id a|u] l IH]; simpl; [discriminate| |].
  - destruct (upto_yield l) as [p o] eqn:E. simpl. intros H. destruct (IH H) as (pre & post & -> & E2 & E3).
    exists (ECall id a :: pre), post. simpl in *. rewrite E2. auto.
  - intros [= ->]. exists [], l. auto.
Qed.
Print Assumptions C10_sequential_stops_at_match.

(** a late worker's match is published first; the holder of the true first match finishes
    its chunk, and nobody pulls afterwards *)
Example C10_example :
  let r := mkRunner None 3%N (RExact 2%N) in
  let stop := fun i => Nat.eqb i 1 || Nat.eqb i 4 in
  let s := mrun r 1000 stop ([0;0;0] ++ [1;2;3] ++ [3;3;3] ++ round_robin 3 8) in
  all_doneb s = true /\ skipped s = true /\ map seen (ws s) = [[0; 1]; [2; 3]; [4]] /\ front s = 6.
Proof. vm_compute. repeat split. Qed.

(** iterator source, ordered handle: worker 2 takes its ticket first but must wait for worker 1's
    ticket to be served; worker 1 finds a match in its chunk; everybody ends *)
Example C10_example_iter :
  let r := mkRunner None 3%N (RExact 2%N) in
  let stop := fun i => Nat.eqb i 1 in
  let s0 := imrunp r 1000 true stop nopanic ([0;0;0] ++ [1;2;2;2;2]) in
  let s := imrunp r 1000 true stop nopanic
             ([0;0;0] ++ [1;2;2;2;2] ++ round_robin 3 (iphi 1000 3 s0)) in
  map iph (iws s0) = [ITicket 0; ITicket 2] /\ igate s0 = Open 0 /\ iall_doneb s0 = false /\
  iall_doneb s = true /\ iskipped s = true /\ map iseen (iws s) = [[0; 1]; [2; 3]; []].
Proof. vm_compute. repeat split. Qed.
