(** C16 — computations are lazy: nothing runs before the terminal call
    (with the eight known eager sites as the listed exceptions). *)
From OrxPar Require Import Base Settings SettingsP Spec Pipeline PipelineP Machine MachineP
  Kernels KernelsP Program Master.

(** the eager sites of the model are exactly the known list *)
Theorem C16_eager_sites : forall k t, eager k t = true <-> In (k, t) known_eager.
Proof. exact eager_sites. Qed.
Print Assumptions C16_eager_sites.

(** outside them a transformation runs no closure, consumes no element, leaves the source
    untouched *)
Theorem C16_lazy_elsewhere : forall (V : Type) (st : pstate V) (s : stage V),
  ~ In (kind_of (ps_par st), tkind_of s) known_eager ->
  ps_clog (apply_stage st s) = ps_clog st /\ ps_consumed (apply_stage st s) = ps_consumed st /\
  ps_src (apply_stage st s) = ps_src st /\ ps_runs (apply_stage st s) = ps_runs st.
Proof. exact apply_stage_lazy. Qed.
Print Assumptions C16_lazy_elsewhere.

(** num_threads / chunk_size never run anything *)
Theorem C16_setters_lazy : forall (V : Type) (st : pstate V) (o : op V), (forall s, o <> OStage s) ->
  ps_clog (apply_op st o) = ps_clog st /\ ps_consumed (apply_op st o) = ps_consumed st /\
  ps_src (apply_op st o) = ps_src st /\ ps_par (apply_op st o) = ps_par st.
Proof. exact setters_lazy. Qed.
Print Assumptions C16_setters_lazy.

(** a computation built without passing a known site has done nothing at all *)
Theorem C16_nothing_before_terminal : forall (V : Type) (src : list V) (ops : list (op V)),
  ps_runs (build src ops) = 0 ->
  ps_clog (build src ops) = [] /\ ps_consumed (build src ops) = 0 /\ ps_src (build src ops) = src.
Proof. intros V src ops H. destruct (build_lazy src ops H) as (H1 & H2 & H3 & _). auto. Qed.
Print Assumptions C16_nothing_before_terminal.

(** the known finding: at each of the eight sites the whole upstream stage is evaluated while
    the computation is being built *)
Theorem C16_known_sites_are_eager : forall (V : Type) (st : pstate V) (s : stage V),
  In (kind_of (ps_par st), tkind_of s) known_eager ->
  ps_clog (apply_stage st s) = ps_clog st ++ run_log st /\
  ps_consumed (apply_stage st s) = ps_consumed st + length (ps_src st) /\
  ps_src (apply_stage st s) = denote st.
Proof. exact apply_stage_eager. Qed.
Print Assumptions C16_known_sites_are_eager.

(** the full statement of the property is refuted by the faithful model: witness *)
Theorem C16_refuted : exists (src : list nat) (ops : list (op nat)),
  ps_clog (build src ops) <> [] /\ ps_consumed (build src ops) = 2.
Proof.
  exists [1; 2], [OStage (SFilter 0 Nat.even); OStage (SFlatMap 1 (fun x => [x; x]))].
  split; [discriminate|reflexivity].
Qed.
Print Assumptions C16_refuted.
