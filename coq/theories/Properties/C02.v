(** C02 — find / first / any / all answer with the first match in source order. *)
From OrxPar Require Import Base Settings SettingsP Spec Pipeline PipelineP Machine MachineP
  Kernels KernelsP Program Master.

(** [find(q)], [any(q)], [all(q)] run the computation with the predicate and-composed after the
    type's own filter: exactly one more [filter] stage. *)
Theorem C02_predicate_is_a_stage : forall (V : Type) (p : par V) id q x,
  trace (with_predicate p (ufil id q)) x = trace (compose p (SFilter id q)) x.
Proof. exact with_predicate_trace. Qed.
Print Assumptions C02_predicate_is_a_stage.

(** For every schedule -- in particular those in which a later chunk's match is published
    first -- the value found is the first element of the sequential chain's output ... *)
Theorem C02_find_value : forall (V : Type) (src : list V) (ops : list (op V)) (r : Runner) (sched : list nat),
  runner_wf r -> all_done (find_run r src ops sched) ->
  option_map snd (res_find (tpe src ops) (ws (find_run r src ops sched)))
  = hd_error (seq_chain (stages_of ops) src).
Proof. intros V src ops r sched Hw Hd. apply par_find_value; assumption. Qed.
Print Assumptions C02_find_value.

(** ... [None] exactly when nothing matches ... *)
Theorem C02_find_none : forall (V : Type) (src : list V) (ops : list (op V)) (r : Runner) (sched : list nat),
  runner_wf r -> all_done (find_run r src ops sched) ->
  (res_find (tpe src ops) (ws (find_run r src ops sched)) = None <-> seq_chain (stages_of ops) src = []).
Proof. intros V src ops r sched Hw Hd. apply par_find_none; assumption. Qed.
Print Assumptions C02_find_none.

(** ... and the reported index is the least position whose element produces a match. *)
Theorem C02_find_index : forall (V : Type) (src : list V) (ops : list (op V)) (r : Runner) (sched : list nat) i v,
  runner_wf r -> all_done (find_run r src ops sched) ->
  res_find (tpe src ops) (ws (find_run r src ops sched)) = Some (i, v) ->
  i < tlen src ops /\ hd_error (vals (tpe src ops) i) = Some v /\
  forall j, j < i -> vals (tpe src ops) j = [].
Proof. intros V src ops r sched i v Hw Hd H. eapply par_find_index; eassumption. Qed.
Print Assumptions C02_find_index.

(** positions are positions of the original source when no eager site was passed *)
Theorem C02_index_is_source_position : forall (V : Type) (src : list V) (ops : list (op V)),
  ps_runs (build src ops) = 0 -> tsrc src ops = src.
Proof. intros V src ops H. apply (build_lazy src ops H). Qed.
Print Assumptions C02_index_is_source_position.

(** a later-spawned worker holds chunk 0 and the other worker publishes its (later) match first *)
Example C02_example :
  let r := mkRunner (Some 6%N) 2%N (RExact 2%N) in
  let ops := [OStage (SFilter 0 (fun x => Nat.eqb (x mod 5) 0))] in
  let s := find_run r [1; 5; 2; 10; 3; 15] ops
             ([0;0;0] ++ [2;1] ++ [1;1;1;1;1] ++ round_robin 2 10) in
  all_doneb s = true /\ map seen (ws s) = [[2; 3]; [0; 1]] /\
  res_find (tpe [1; 5; 2; 10; 3; 15] ops) (ws s) = Some (1, 5).
Proof. vm_compute. repeat split. Qed.

From OrxPar Require Import MachineIter MachineIterP MasterIter.

(** the same over a by-value iterator source: ticket order = position order *)
Theorem C02_find_iter : forall (V : Type) (src : list V) (ops : list (op V)) (r : Runner)
  (ordered : bool) (sched : list nat),
  runner_wf r -> iall_done (imrun r (tlen src ops) ordered (stop_of (tpar src ops) (tsrc src ops)) sched) ->
  res_find (tpe src ops) (map wk (iws (imrun r (tlen src ops) ordered (stop_of (tpar src ops) (tsrc src ops)) sched)))
  = find_in (tpe src ops) (seq 0 (tlen src ops)).
Proof. intros V src ops r ordered sched Hw Hd. apply iter_find; assumption. Qed.
Print Assumptions C02_find_iter.

(** a concurrent iterator that was advanced by [k] elements before [into_par()]: the computation
    runs over the rest, and position [i] of the rest is position [k + i] of the original source
    (the index the model's [exec] reports, [shift_res]) *)
Theorem C02_pre_advanced_index : forall (A : Type) (l : list A) (k i : nat),
  nth_error (skipn k l) i = nth_error l (k + i).
Proof. intros A l k i. apply pre_advanced_position. Qed.
Print Assumptions C02_pre_advanced_index.

(** REFUTED on one source kind (known finding, DESIGN.md section 6): on such a source the parallel
    kernels report the original position [k + i] (what the concurrent iterator hands out), the
    sequential path enumerates what is left and reports [i]: one call, two indices. *)
From OrxPar Require Import Exec.
Theorem C02_pre_advanced_index_refuted :
  let c nt := mkCase true [0; 1; 2; 3; 4; 5]%Z [DNumThreads nt; DChunkSize 2; DMap (Affine 1 10)]
                     (TFindIx (KeepGe 13)) 16%N [] 50 None false false 2 in
  o_result (exec (c 3%N)) = ROptIx (Some (3, 13%Z)) /\     (* element 3 of the original source *)
  o_result (exec (c 1%N)) = ROptIx (Some (1, 13%Z)).       (* element 1 of what was left *)
Proof. vm_compute. repeat split. Qed.
Print Assumptions C02_pre_advanced_index_refuted.
