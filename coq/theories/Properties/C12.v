(** C12 — parameters propagate unchanged through every transformation. *)
From OrxPar Require Import Base Settings SettingsP Spec Pipeline PipelineP Machine MachineP
  Kernels KernelsP Program Master.

(** [params()] reports the last values set anywhere in the chain, defaults Auto/Auto, through
    every transformation of every type, eager sites included. *)
Theorem C12_params_last_set : forall (V : Type) (src : list V) (ops : list (op V)),
  ps_params (build src ops) = mkParams (last_threads ops NTAuto) (last_chunk ops CSAuto).
Proof. exact build_params_last. Qed.
Print Assumptions C12_params_last_set.

Theorem C12_stage_keeps_params : forall (V : Type) (st : pstate V) (s : stage V),
  ps_params (apply_op st (OStage s)) = ps_params st.
Proof. intros V st s. apply (apply_op_params st (OStage s)). Qed.
Print Assumptions C12_stage_keeps_params.

(** usize conversions: 0 is Auto, n > 0 is Max(n) / Exact(n) *)
Theorem C12_of_usize : forall n : N,
  nt_of_usize n = (if N.eqb n 0 then NTAuto else NTMax n) /\
  cs_of_usize n = (if N.eqb n 0 then CSAuto else CSExact n).
Proof. intros n. split; reflexivity. Qed.
Print Assumptions C12_of_usize.

Theorem C12_is_sequential : forall p, is_sequential p = true <-> p_threads p = NTMax 1.
Proof. exact is_sequential_iff. Qed.
Print Assumptions C12_is_sequential.

Example C12_example :
  ps_params (build [1; 2] [ONumThreads 3%N; OStage (SFilter 0 Nat.even); OChunkSize 0%N;
                           OStage (SFlatMap 1 (fun x => [x])); ONumThreads 7%N; OChunkMin 5%N])
  = mkParams (NTMax 7%N) (CSMin 5%N).
Proof. reflexivity. Qed.
