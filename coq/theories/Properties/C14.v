(** C14 — a panicking closure propagates as a panic and never corrupts memory. *)
From OrxPar Require Import Base Settings SettingsP Spec Pipeline PipelineP Machine MachineP Termination
  Kernels KernelsP Own Program Master MachineIter MachineIterP TerminationIter MasterIter.

(** Closures may panic on any set of source positions.  For every schedule: a worker that
    processed a panicking position is dead (its thread unwound), so the scope / join re-raises the
    panic -- the panic is never swallowed ... *)
Theorem C14_panic_propagates : forall (r : Runner) (len : nat) (stop panics : nat -> bool) (sched : list nat) w i,
  runner_wf r -> In w (ws (mrunp r len stop panics sched)) -> In i (seen w) -> panics i = true ->
  ph w = Dead.
Proof. intros r len stop panics sched w i Hw. apply mrunp_panic_propagates; assumption. Qed.
Print Assumptions C14_panic_propagates.

(** ... the other workers are not blocked: after any schedule prefix a fair continuation
    completes the run (no hang) ... *)
Theorem C14_no_hang : forall (r : Runner) (len : nat) (stop panics : nat -> bool) (sched : list nat),
  runner_wf r ->
  all_done (mrunp r len stop panics
              (sched ++ round_robin (m_maxt r) (phi len (m_maxt r) (mrunp r len stop panics sched)))).
Proof. intros r len stop panics sched Hw. apply mrunp_completes; assumption. Qed.
Print Assumptions C14_no_hang.

(** the same over by-value iterator sources: a worker that unwinds has released the handle (a
    chain closure runs after the pull), so the waiting ticket holders are served and the run
    completes, for every set of panicking positions and every schedule prefix *)
Theorem C14_no_hang_iter :
  forall (r : Runner) (len : nat) (ordered : bool) (stop panics : nat -> bool) (sched : list nat),
  runner_wf r ->
  iall_done (imrunp r len ordered stop panics
               (sched ++ round_robin (m_maxt r) (iphi len (m_maxt r) (imrunp r len ordered stop panics sched)))).
Proof. intros r len ordered stop panics sched Hw. apply imrunp_completes; assumption. Qed.
Print Assumptions C14_no_hang_iter.

(** ... and while unwinding nothing is dropped twice: every source element is still moved out
    exactly once or dropped in place exactly once (the unwinding worker's chunk iterator drains
    and drops what it had reserved; the iterator's [Drop] drops what nobody reserved). *)
Theorem C14_source_elements_at_most_once : forall (r : Runner) (len : nat) (stop panics : nat -> bool) (sched : list nat),
  runner_wf r -> all_done (mrunp r len stop panics sched) ->
  Permutation (moved_out (mrunp r len stop panics sched)
               ++ skip_drops len (match r_input_len r with Some _ => true | None => false end) stop panics
                             (m_dospawn r) (m_nextc r) (init (m_c0 r)) sched
               ++ final_drop len (mrunp r len stop panics sched))
              (seq 0 len).
Proof. intros r len stop panics sched Hw Hd. apply (mrunp_source_accounting Hw len stop panics sched Hd). Qed.
Print Assumptions C14_source_elements_at_most_once.

(** The partially written ordered bag is guarded ([ManuallyDrop], src/core/map_col.rs): leaving
    by unwinding leaks it, so no never-written slot is ever dropped ... *)
Theorem C14_guarded_bag_drops_nothing : forall written cap i,
  In i (bag_drop_on_unwind true written cap) -> False.
Proof. exact guarded_bag_safe. Qed.
Print Assumptions C14_guarded_bag_drops_nothing.

(** ... whereas the pinned tree's unguarded bag refutes the property (the repaired defect). *)
Theorem C14_unguarded_refuted :
  exists written cap i, In i (bag_drop_on_unwind false written cap) /\ never_written written i.
Proof. exact unguarded_bag_refuted. Qed.
Print Assumptions C14_unguarded_refuted.

(** by-value iterator sources (items are moved out of the user's iterator by [next()]): every
    element yielded so far belongs to exactly one worker and, when all threads have finished, has
    been processed or abandoned (dropped with that worker's buffer) exactly once; what was never
    yielded stays inside the iterator *)
Theorem C14_iterator_elements_at_most_once :
  forall (r : Runner) (len : nat) (ordered : bool) (stop panics : nat -> bool) (sched : list nat),
  runner_wf r -> iall_done (imrunp r len ordered stop panics sched) ->
  Permutation (flat_map iseen (iws (imrunp r len ordered stop panics sched))
               ++ flat_map iaband (iws (imrunp r len ordered stop panics sched)))
              (seq 0 (ifront (imrunp r len ordered stop panics sched)))
  /\ ifront (imrunp r len ordered stop panics sched) <= len.
Proof. intros r len ordered stop panics sched Hw Hd. apply imrunp_source_accounting; assumption. Qed.
Print Assumptions C14_iterator_elements_at_most_once.

(** worker 1 panics at position 2 while worker 2 keeps going; everything is accounted for *)
Example C14_example :
  let r := mkRunner (Some 8%N) 2%N (RExact 2%N) in
  let panics := fun i => Nat.eqb i 2 in
  let sched := [0;0] ++ round_robin 2 12 in
  let s := mrunp r 8 nostop panics sched in
  all_doneb s = true /\ any_dead s = true /\ map ph (ws s) = [Done; Dead] /\
  moved_out s = [0; 1; 4; 5; 6; 7; 2; 3].
Proof. vm_compute. repeat split. Qed.
