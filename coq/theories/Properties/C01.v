(** C01 — ordered collection equals sequential iteration.  Statements only. *)
From OrxPar Require Import Base Settings SettingsP Spec Pipeline PipelineP Machine MachineP
  Kernels KernelsP Program Master.

(** Whatever sequence of map / filter / flat_map / filter_map / num_threads / chunk_size
    operations builds the computation (through any number of eager sites), whatever well-formed
    settings the runner resolved, and whatever the schedule: when the run completes, the
    filtering collect kernels return exactly the sequential chain's output ... *)
Theorem C01_collect_merge : forall (V : Type) (src : list V) (ops : list (op V)) (r : Runner) (sched : list nat),
  runner_wf r -> all_done (full_run r src ops sched) ->
  res_col (tpe src ops) [] (ws (full_run r src ops sched)) = seq_chain (stages_of ops) src.
Proof. intros V src ops r sched Hw Hd. apply par_collect_merge; assumption. Qed.
Print Assumptions C01_collect_merge.

(** ... and so does the map-only kernel that writes positionally into the ordered bag
    (every position written exactly once, so the count check succeeds). *)
Theorem C01_collect_bag : forall (V : Type) (src : list V) (ops : list (op V)) (r : Runner) (sched : list nat),
  runner_wf r -> all_done (full_run r src ops sched) ->
  (forall x, length (yields (trace (tpar src ops) x)) = 1) ->
  res_map_col (tpe src ops) [] (tlen src ops) (ws (full_run r src ops sched))
  = Some (seq_chain (stages_of ops) src).
Proof. intros V src ops r sched Hw Hd H1. apply par_collect_bag; assumption. Qed.
Print Assumptions C01_collect_bag.

(** The library's closure composition denotes the std chain, for chains of any length on
    all eight computation types. *)
Theorem C01_denotation : forall (V : Type) (src : list V) (ops : list (op V)),
  denote (build src ops) = seq_chain (stages_of ops) src.
Proof. exact build_denote. Qed.
Print Assumptions C01_denotation.

(** The k-way merge returns the key-sorted sequence whenever every per-thread vector is
    key-sorted and together they hold the target's elements. *)
Theorem C01_merge : forall (V : Type) (vs : list (list (nat * nat * V))) (target : list (nat * nat * V)),
  Forall (@ksorted V) vs -> ksorted target -> Permutation (concat vs) target -> kmerge vs = target.
Proof. exact kmerge_sorted_eq. Qed.
Print Assumptions C01_merge.

(** the hypotheses are satisfiable: a concrete completed run *)
Example C01_example :
  let r := mkRunner (Some 5%N) 3%N (RExact 2%N) in
  let ops := [OStage (SMap 0 (fun x => x + 1)); OStage (SFilter 1 Nat.even)] in
  let s := full_run r [1; 2; 3; 4; 5] ops [0;0;0;0;1;2;3;1;2;3;1;1;2;2;3;3;1;2;3;1;2;3;1;2;3] in
  all_doneb s = true /\ res_col (tpe [1; 2; 3; 4; 5] ops) [] (ws s) = [2; 4; 6].
Proof. vm_compute. split; reflexivity. Qed.

From OrxPar Require Import MachineIter MachineIterP MasterIter.

(** the same over a by-value iterator source (ticket-ordered handle protocol) *)
Theorem C01_collect_merge_iter : forall (V : Type) (src : list V) (ops : list (op V)) (r : Runner)
  (ordered : bool) (sched : list nat),
  runner_wf r -> iall_done (imrun r (tlen src ops) ordered (@nostop) sched) ->
  res_col (tpe src ops) [] (map wk (iws (imrun r (tlen src ops) ordered (@nostop) sched)))
  = seq_chain (stages_of ops) src.
Proof. intros V src ops r ordered sched Hw Hd. apply iter_collect_merge; assumption. Qed.
Print Assumptions C01_collect_merge_iter.

(** eager sites: the intermediate vector that an eager transformation materialises with
    [collect_vec] -- computed by a real run of the runner machine under any schedule -- is the
    denotation the construction model ([apply_stage]) continues with *)
Theorem C01_eager_vector : forall (V : Type) (st : pstate V) (r : Runner) (sched : list nat),
  runner_wf r -> all_done (mrun r (length (ps_src st)) (@nostop) sched) ->
  eager_vector st r sched = denote st.
Proof. intros V st r sched Hw Hd. apply eager_vector_correct; assumption. Qed.
Print Assumptions C01_eager_vector.

(** REFUTED on one source kind (known finding, DESIGN.md section 6): a concurrent iterator that
    was advanced before [into_par()] hands out its original indices; the parallel map-only ordered
    collect writes at [offset + idx] into a bag sized for the remaining elements and the count check
    fails -- the call panics where the sequential chain returns the mapped remainder.  The witness
    is replayed on the implementation by K3 (source kinds [pre*]). *)
From OrxPar Require Import Exec.
Theorem C01_pre_advanced_refuted :
  let c pre nt := mkCase true [0; 1; 2; 3; 4; 5]%Z [DNumThreads nt; DChunkSize 2; DMap (Affine 1 10)] TCollectVec
                         16%N [] 50 None false false pre in
  o_result (exec (c 2 3%N)) = RPanic /\                      (* advanced by 2, three threads *)
  o_result (exec (c 2 1%N)) = RList [12; 13; 14; 15]%Z /\    (* the same, sequentially *)
  o_result (exec (c 0 3%N)) = RList [10; 11; 12; 13; 14; 15]%Z.  (* not advanced *)
Proof. vm_compute. repeat split. Qed.
Print Assumptions C01_pre_advanced_refuted.

(** ... and the failure class is exactly characterised: for every run over a source advanced by
    [k >= 1] with [n >= 1] elements left, whatever the schedule, the map-only ordered collect
    panics; with [k = 0] it returns the sequential value ([C15_parallel_value_is_sequential_value]) *)
From OrxPar Require Import ExecP.
Theorem C01_pre_advanced_class : forall (pe : nat -> list (event Z)) (k n : nat) (wl : list worker),
  0 < k -> 0 < n ->
  finish TCollectVec pe n KMap k wl = RPanic /\ finish TCollectSplit pe n KMap k wl = RPanic /\
  forall tg old, finish (TCollectInto tg old) pe n KMap k wl = RPanic.
Proof. intros pe k n wl Hk Hn. apply advanced_map_collect_panics; assumption. Qed.
Print Assumptions C01_pre_advanced_class.
