(** C03 — the reduce family combines every surviving element exactly once. *)
From OrxPar Require Import Base Settings SettingsP Spec Pipeline PipelineP Machine MachineP
  Kernels KernelsP Program Master.

(** With an associative and commutative operator, for every schedule (also those in which some
    workers receive nothing, or one receives everything), the per-chunk / per-thread / cross-thread
    combination tree returns the left fold over the sequential chain's output; [None] iff nothing
    survives.  fold / sum / min / max / *_by(_key) are [reduce] with a fixed operator. *)
Theorem C03_reduce : forall (V : Type) (src : list V) (ops : list (op V)) (r : Runner) (sched : list nat)
  (f : V -> V -> V),
  runner_wf r -> all_done (full_run r src ops sched) ->
  (forall a b c, f (f a b) c = f a (f b c)) -> (forall a b, f a b = f b a) ->
  res_red (tpe src ops) f (ws (full_run r src ops sched)) = reduce_list f (seq_chain (stages_of ops) src).
Proof. intros V src ops r sched f Hw Hd Ha Hc. apply par_reduce; assumption. Qed.
Print Assumptions C03_reduce.

Theorem C03_none_iff_empty : forall (V : Type) (f : V -> V -> V) (l : list V),
  reduce_list f l = None <-> l = [].
Proof. intros V f l. destruct l; simpl; split; intros H; try reflexivity; discriminate. Qed.
Print Assumptions C03_none_iff_empty.

Example C03_example :
  let r := mkRunner (Some 5%N) 3%N (RMin 2%N) in
  let ops := [OStage (SFilter 0 Nat.odd)] in
  let s := full_run r [1; 2; 3; 4; 5] ops (round_robin 3 12) in
  all_doneb s = true /\ res_red (tpe [1; 2; 3; 4; 5] ops) Nat.add (ws s) = Some 9.
Proof. vm_compute. split; reflexivity. Qed.

From OrxPar Require Import MachineIter MachineIterP MasterIter.

(** the same over a by-value iterator source (first-come handle of ConIterOfIterX) *)
Theorem C03_reduce_iter : forall (V : Type) (src : list V) (ops : list (op V)) (r : Runner)
  (ordered : bool) (sched : list nat) (f : V -> V -> V),
  runner_wf r -> iall_done (imrun r (tlen src ops) ordered (@nostop) sched) ->
  (forall a b c, f (f a b) c = f a (f b c)) -> (forall a b, f a b = f b a) ->
  res_red (tpe src ops) f (map wk (iws (imrun r (tlen src ops) ordered (@nostop) sched)))
  = reduce_list f (seq_chain (stages_of ops) src).
Proof. intros V src ops r ordered sched f Hw Hd Ha Hc. apply iter_reduce; assumption. Qed.
Print Assumptions C03_reduce_iter.
