(** C05 — closures run exactly once per element (source mutual exclusion: see DESIGN.md). *)
From OrxPar Require Import Base Settings SettingsP Spec Pipeline PipelineP Machine MachineP
  Kernels KernelsP Program Master.

(** Full terminals: the calls made while building (eager sites) and while running are together
    a permutation of the sequential chain's calls -- each closure exactly once per element that
    reaches its stage -- for every schedule. *)
Theorem C05_calls_full : forall (V : Type) (src : list V) (ops : list (op V)) (r : Runner) (sched : list nat),
  runner_wf r -> all_done (full_run r src ops sched) ->
  Permutation (ps_clog (build src ops) ++ flat_map (w_calls_full (tpe src ops)) (ws (full_run r src ops sched)))
              (seq_log (stages_of ops) src).
Proof. intros V src ops r sched Hw Hd. apply par_calls; assumption. Qed.
Print Assumptions C05_calls_full.

(** The composed closures of every lazy transformation evaluate the new stage exactly where
    the std chain does: the per-element trace grows by exactly that stage. *)
Theorem C05_composition : forall (V : Type) (p : par V) (s : stage V) (x : V),
  eager (kind_of p) (tkind_of s) = false -> trace (compose p s) x = bind (trace p x) (ev [s]).
Proof. exact compose_trace. Qed.
Print Assumptions C05_composition.

(** every position is processed by exactly one worker: no element is fed twice *)
Theorem C05_each_position_once : forall (r : Runner) (len : nat) (stop : nat -> bool) (sched : list nat),
  runner_wf r -> all_done (mrun r len stop sched) -> NoDup (flat_map seen (ws (mrun r len stop sched))).
Proof. intros r len stop sched Hw Hd. apply (O_disjoint (mrun_outcome Hw len stop sched Hd)). Qed.
Print Assumptions C05_each_position_once.

From OrxPar Require Import MachineIter MachineIterP MasterIter.

(** By-value iterator sources (ConIterOfIter and ConIterOfIterX): in every reachable state of
    every schedule -- whatever is spinning on the handle, whatever panics -- at most one thread is
    inside the user's iterator ... *)
Theorem C05_source_mutual_exclusion : forall (r : Runner) (srclen : nat) (ordered : bool)
  (stop panics : nat -> bool) (sched : list nat),
  runner_wf r -> readers (iws (imrunp r srclen ordered stop panics sched)) <= 1.
Proof. intros r srclen ordered stop panics sched Hw. apply imrun_mutual_exclusion; assumption. Qed.
Print Assumptions C05_source_mutual_exclusion.

(** ... the reader holding ticket [t] that has read [got] elements sits exactly at source
    position [t + got]: every element the iterator yields goes to exactly one worker, under its
    true position ... *)
Theorem C05_source_positions : forall (r : Runner) (srclen : nat) (ordered : bool)
  (stop panics : nat -> bool) (sched : list nat) w t got,
  runner_wf r -> In w (iws (imrunp r srclen ordered stop panics sched)) -> iph w = IReading t got ->
  ifront (imrunp r srclen ordered stop panics sched) = t + got.
Proof. intros r srclen ordered stop panics sched w t got Hw. apply imrun_reader_positions; assumption. Qed.
Print Assumptions C05_source_positions.

(** ... and full terminals over an iterator source make exactly the sequential calls. *)
Theorem C05_calls_full_iter : forall (V : Type) (src : list V) (ops : list (op V)) (r : Runner)
  (ordered : bool) (sched : list nat),
  runner_wf r -> iall_done (imrun r (tlen src ops) ordered (@nostop) sched) ->
  Permutation (ps_clog (build src ops) ++
               flat_map (w_calls_full (tpe src ops)) (map wk (iws (imrun r (tlen src ops) ordered (@nostop) sched))))
              (seq_log (stages_of ops) src).
Proof. intros V src ops r ordered sched Hw Hd. apply iter_calls; assumption. Qed.
Print Assumptions C05_calls_full_iter.
