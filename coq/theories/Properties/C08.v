(** C08 — NumThreads::Max(n) bounds concurrency; Max(1) runs on the calling thread. *)
From OrxPar Require Import Base Settings SettingsP Spec Pipeline PipelineP Machine MachineP
  Kernels KernelsP Program Master.
Local Open Scope N_scope.

(** [Max n] resolves to at most [n] threads ... *)
Theorem C08_max_threads : forall params task len avail n r,
  p_threads params = NTMax n -> 1 <= n ->
  runner_new params task len avail = Some r -> r_max_threads r <= n.
Proof. exact runner_new_max_threads. Qed.
Print Assumptions C08_max_threads.
Local Close Scope N_scope.

(** ... and in every reachable state of every schedule the number of workers ever spawned (a
    fortiori the number alive at once, and the number of distinct threads running the chain's
    closures) is at most that many. *)
Theorem C08_workers_bounded : forall (r : Runner) (len : nat) (stop : nat -> bool) (sched : list nat),
  runner_wf r -> length (ws (mrun r len stop sched)) <= m_maxt r.
Proof. intros r len stop sched Hw. apply mrun_threads; assumption. Qed.
Print Assumptions C08_workers_bounded.

(** [is_sequential] is true exactly for [Max(1)]; every kernel then takes its [seq_*] branch on
    the calling thread (Exec.exec: no runner, no worker). *)
Theorem C08_sequential_iff : forall p, is_sequential p = true <-> p_threads p = NTMax 1.
Proof. exact is_sequential_iff. Qed.
Print Assumptions C08_sequential_iff.

From OrxPar Require Import MachineIter MachineIterP MasterIter.

(** the same bound over a by-value iterator source *)
Theorem C08_workers_bounded_iter : forall (r : Runner) (srclen : nat) (ordered : bool)
  (stop panics : nat -> bool) (sched : list nat),
  runner_wf r -> length (iws (imrunp r srclen ordered stop panics sched)) <= m_maxt r.
Proof. intros r srclen ordered stop panics sched Hw. apply imrun_threads; assumption. Qed.
Print Assumptions C08_workers_bounded_iter.

(** REFUTED for the reduce operator (known finding, DESIGN.md section 6): the per-worker partial
    results are combined by the calling thread ([Runner::reduce]: [threads.map(join).reduce(op)]),
    so with [Max(n)] the operator can be invoked by [n] workers and by the caller: [n + 1] distinct
    threads.  (The concurrency clause is unaffected: the caller combines after the joins.)
    A worker invokes the operator when it folds at least two values; the caller when at least two
    workers come back with a value. *)
From OrxPar Require Import Kernels Program.
Definition op_threads {V} (pe : nat -> list (event V)) (wl : list worker) : nat :=
  length (filter (fun w => 2 <=? length (flat_map (vals pe) (seen w))) wl)
  + (if 2 <=? length (filter (fun w => 1 <=? length (flat_map (vals pe) (seen w))) wl) then 1 else 0).
Theorem C08_reduce_operator_on_caller_refuted :
  let r := mkRunner (Some 8%N) 2%N (RExact 2%N) in          (* Max(2) *)
  let s := mrun r 8 (@nostop) ([0; 0] ++ round_robin 2 20) in
  let pe := fun i : nat => [EYield i] in
  all_doneb s = true /\ length (ws s) = 2 /\ op_threads pe (ws s) = 3.
Proof. vm_compute. repeat split. Qed.
Print Assumptions C08_reduce_operator_on_caller_refuted.
