(** C15 — parameters never change a result or make a computation fail.
    This file contains only statements, each closed by [exact]. *)
From OrxPar Require Import Base Settings SettingsP.
Local Open Scope N_scope.

(** (a) The settings arithmetic is total in checked-usize semantics and yields
    positive settings: no overflow, underflow, division by zero; the halving loop
    terminates; the [validate] assertion never fires. *)
Theorem C15_runner_new_total : forall params task len avail,
  1 <= avail <= 2 ^ 16 -> len_wf len -> chunk_wf (p_chunk params) ->
  exists r, runner_new params task len avail = Some r /\ runner_wf r
            /\ r_input_len r = len
            /\ r_max_threads r = N.max (calc_num_threads len avail (p_threads params)) 1
            /\ r_max_threads r <= avail.
Proof. exact runner_new_total. Qed.
Print Assumptions C15_runner_new_total.

Theorem C15_spawn_decisions_total : forall r ns h, runner_wf r -> hm_wf r h ->
  do_spawn r ns h = Some (if r_max_threads r - 1 <=? ns then false else negb (hm_is_no h)) /\
  exists o, next_chunk_size r ns h = Some o /\
            match o with
            | None => True
            | Some c => 1 <= c <= usize_max /\ ns + 1 < r_max_threads r /\
                        (forall x, r_chunk r = RExact x -> c = x) /\
                        (exists k, 1 <= k /\ c = k * r_inner (r_chunk r))
            end.
Proof. intros r ns h Hw Hh. split; [apply do_spawn_total; exact Hw | apply next_chunk_size_total; assumption]. Qed.
Print Assumptions C15_spawn_decisions_total.

(** non-vacuity: a concrete non-trivial configuration meets the hypotheses *)
Example C15_example :
  runner_new (mkParams (NTMax 5) (CSMin 7)) TReduce (Some 1000) 16
  = Some (mkRunner (Some 1000) 5 (RMin 7)).
Proof. vm_compute. reflexivity. Qed.

Local Close Scope N_scope.
From OrxPar Require Import Spec Pipeline PipelineP Machine MachineP MachineIter MachineIterP Kernels KernelsP
  Program Master MasterIter Exec ExecP.

(** ... and no parameter setting changes a result: for every terminal of the executable model, every
    computation [p] of the eight types, every source, every well-formed resolved setting [r] (that
    is: every [num_threads] / [chunk_size]) and every schedule, the value the parallel branch
    computes from what the workers did ([finish]) is the value of the sequential branch
    ([finish_seq], i.e. [num_threads(1)]) -- equal up to the order of [collect_x]; reduce-family
    operators associative and commutative; the map-only bag path needs one value per element,
    which holds for map-only computations. *)
Theorem C15_parallel_value_is_sequential_value :
  forall (r : Runner) (p : par Z) (src : list Z) (t : terminal) (sched : list nat),
  runner_wf r ->
  (kind_of p = KMap -> forall x, length (yields (trace p x)) = 1) ->
  (forall f, red_family t = Some f ->
     (forall a b c, f (f a b) c = f a (f b c)) /\ (forall a b, f a b = f b a)) ->
  let stop := if is_find t then stop_of p src else (@nostop) in
  all_done (mrun r (length src) stop sched) ->
  req (finish t (pe_of p src) (length src) (kind_of p) 0 (ws (mrun r (length src) stop sched)))
      (fst (finish_seq t (flat_map (trace p) src) src p)).
Proof. intros r p src t sched Hw H1 Hop stop Hd. apply exec_value_indexed; assumption. Qed.
Print Assumptions C15_parallel_value_is_sequential_value.

Theorem C15_parallel_value_is_sequential_value_iter :
  forall (r : Runner) (p : par Z) (src : list Z) (t : terminal) (ordered : bool) (sched : list nat),
  runner_wf r ->
  (kind_of p = KMap -> forall x, length (yields (trace p x)) = 1) ->
  (forall f, red_family t = Some f ->
     (forall a b c, f (f a b) c = f a (f b c)) /\ (forall a b, f a b = f b a)) ->
  let stop := if is_find t then stop_of p src else (@nostop) in
  iall_done (imrun r (length src) ordered stop sched) ->
  req (finish t (pe_of p src) (length src) (kind_of p) 0 (map wk (iws (imrun r (length src) ordered stop sched))))
      (fst (finish_seq t (flat_map (trace p) src) src p)).
Proof. intros r p src t ordered sched Hw H1 Hop stop Hd. apply exec_value_iter; assumption. Qed.
Print Assumptions C15_parallel_value_is_sequential_value_iter.

(** a filter.map computation over five elements, collected by three workers under round robin *)
Example C15_example_value :
  let r := mkRunner (Some 5%N) 3%N (RExact 2%N) in
  let p := ps_par (build [1; 2; 3; 4; 5]%Z
                     (to_ops 0 [DFilter (KeepMod 2 1); DMap (Affine 10 0)])) in
  let src := [1; 2; 3; 4; 5]%Z in
  let s := mrun r 5 (@nostop) (round_robin 3 20) in
  all_doneb s = true /\
  finish TCollectVec (pe_of p src) 5 (kind_of p) 0 (ws s) = RList [10; 30; 50]%Z /\
  fst (finish_seq TCollectVec (flat_map (trace p) src) src p) = RList [10; 30; 50]%Z.
Proof. vm_compute. repeat split. Qed.

(** ... stated on the extracted function itself: for every case (indexed source, micro-schedule, no
    injected panic, not pre-advanced) whose settings resolve to a well-formed runner, if [exec]
    took its parallel branch, completed and did not panic, its value is the value its sequential
    branch computes for the same computation *)
Theorem C15_exec_value : forall (c : case),
  c_panic c = None -> c_pre c = 0 -> c_macro c = false -> c_iter c = false ->
  (forall task len r, runner_new (ps_params (c_st c)) task len (c_avail c) = Some r -> runner_wf r) ->
  (kind_of (c_p c) = KMap -> forall x, length (yields (trace (c_p c) x)) = 1) ->
  (forall f, red_family (c_term c) = Some f ->
     (forall a b c0, f (f a b) c0 = f a (f b c0)) /\ (forall a b, f a b = f b a)) ->
  o_sequential (exec c) = false -> o_complete (exec c) = true -> o_result (exec c) <> RPanic ->
  req (o_result (exec c)) (c_seqval c).
Proof. exact exec_value. Qed.
Print Assumptions C15_exec_value.

(** ... and for by-value iterator sources (ticket / gate protocol, no eager site) *)
Theorem C15_exec_value_iter : forall (c : case),
  c_panic c = None -> c_pre c = 0 -> c_macro c = false -> c_iter c = true ->
  ps_runs (c_st c) = 0 ->
  (forall task len r, runner_new (ps_params (c_st c)) task len (c_avail c) = Some r -> runner_wf r) ->
  (kind_of (c_p c) = KMap -> forall x, length (yields (trace (c_p c) x)) = 1) ->
  (forall f, red_family (c_term c) = Some f ->
     (forall a b c0, f (f a b) c0 = f a (f b c0)) /\ (forall a b, f a b = f b a)) ->
  o_sequential (exec c) = false -> o_complete (exec c) = true -> o_result (exec c) <> RPanic ->
  req (o_result (exec c)) (c_seqval c).
Proof. exact exec_value_iter_case. Qed.
Print Assumptions C15_exec_value_iter.
