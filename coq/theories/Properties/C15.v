(** C15 — parameters never change a result or make a computation fail.
    This file contains only statements, each closed by [exact]. *)
From OrxPar Require Import Base Settings SettingsP.
Local Open Scope N_scope.

(** (a) The settings arithmetic is total in checked-usize semantics and yields
    positive settings: no overflow, underflow, division by zero; the halving loop
    terminates; the [validate] assertion never fires. *)
Theorem C15_runner_new_total : forall params task len avail,
  1 <= avail <= 2 ^ 16 -> len_wf len -> chunk_wf (p_chunk params) ->
  exists r, runner_new params task len avail = Some r /\ runner_wf r
            /\ r_input_len r = len
            /\ r_max_threads r = N.max (calc_num_threads len avail (p_threads params)) 1
            /\ r_max_threads r <= avail.
Proof. exact runner_new_total. Qed.
Print Assumptions C15_runner_new_total.

Theorem C15_spawn_decisions_total : forall r ns h, runner_wf r -> hm_wf r h ->
  do_spawn r ns h = Some (if r_max_threads r - 1 <=? ns then false else negb (hm_is_no h)) /\
  exists o, next_chunk_size r ns h = Some o /\
            match o with
            | None => True
            | Some c => 1 <= c <= usize_max /\ ns + 1 < r_max_threads r /\
                        (forall x, r_chunk r = RExact x -> c = x) /\
                        (exists k, 1 <= k /\ c = k * r_inner (r_chunk r))
            end.
Proof. intros r ns h Hw Hh. split; [apply do_spawn_total; exact Hw | apply next_chunk_size_total; assumption]. Qed.
Print Assumptions C15_spawn_decisions_total.

(** non-vacuity: a concrete non-trivial configuration meets the hypotheses *)
Example C15_example :
  runner_new (mkParams (NTMax 5) (CSMin 7)) TReduce (Some 1000) 16
  = Some (mkRunner (Some 1000) 5 (RMin 7)).
Proof. vm_compute. reflexivity. Qed.
