(** C06 — collect_into appends to, and never disturbs, existing contents. *)
From OrxPar Require Import Base Settings SettingsP Spec Pipeline PipelineP Machine MachineP
  Kernels KernelsP Program Master.

(** filtering pipelines: merged results are pushed after the existing elements *)
Theorem C06_collect_into_merge : forall (V : Type) (src : list V) (ops : list (op V)) (r : Runner)
  (sched : list nat) (old : list V),
  runner_wf r -> all_done (full_run r src ops sched) ->
  res_col (tpe src ops) old (ws (full_run r src ops sched)) = old ++ seq_chain (stages_of ops) src.
Proof. intros V src ops r sched old Hw Hd. apply par_collect_merge; assumption. Qed.
Print Assumptions C06_collect_into_merge.

(** map-only pipelines: writes at [offset + idx] with [offset = length old]; the existing
    elements stay in place *)
Theorem C06_collect_into_bag : forall (V : Type) (src : list V) (ops : list (op V)) (r : Runner)
  (sched : list nat) (old : list V),
  runner_wf r -> all_done (full_run r src ops sched) ->
  (forall x, length (yields (trace (tpar src ops) x)) = 1) ->
  res_map_col (tpe src ops) old (tlen src ops) (ws (full_run r src ops sched))
  = Some (old ++ seq_chain (stages_of ops) src).
Proof. intros V src ops r sched old Hw Hd H1. apply par_collect_bag; assumption. Qed.
Print Assumptions C06_collect_into_bag.

Example C06_example :
  let r := mkRunner (Some 4%N) 2%N (RExact 1%N) in
  let ops := [OStage (SMap 0 (fun x => x * 10))] in
  let s := full_run r [1; 2; 3; 4] ops (round_robin 2 14) in
  all_doneb s = true /\
  res_map_col (tpe [1; 2; 3; 4] ops) [100; 200; 300] 4 (ws s) = Some [100; 200; 300; 10; 20; 30; 40].
Proof. vm_compute. split; reflexivity. Qed.
