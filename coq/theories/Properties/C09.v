(** C09 — sequential mode is identical to std iterator execution. *)
From OrxPar Require Import Base Settings SettingsP Spec Pipeline PipelineP Machine MachineP
  Kernels KernelsP Program Master.

(** In sequential mode every kernel folds the std adaptors over the composed closures on the
    calling thread: the value is [denote], the calls are [run_log], in that order.  For every
    sequence of operations the value is the sequential chain's ... *)
Theorem C09_value : forall (V : Type) (src : list V) (ops : list (op V)),
  denote (build src ops) = seq_chain (stages_of ops) src.
Proof. exact build_denote. Qed.
Print Assumptions C09_value.

(** ... so [reduce]/[fold] return the left-to-right [Iterator::reduce] value with no assumption
    on the operator ([reduce_list] is a left fold by definition) ... *)
Theorem C09_reduce_is_left_fold : forall (V : Type) (f : V -> V -> V) x l,
  reduce_list f (x :: l) = Some (fold_left f l x).
Proof. reflexivity. Qed.
Print Assumptions C09_reduce_is_left_fold.

(** ... and for a computation executed in one pass the run-time calls are the sequential
    chain's calls in the sequential order: each stage sees its elements in source order. *)
Theorem C09_call_order : forall (V : Type) (src : list V) (ops : list (op V)),
  ps_runs (build src ops) = 0 ->
  run_log (build src ops) = seq_log (stages_of ops) src /\ ps_clog (build src ops) = [].
Proof. intros V src ops H. destruct (build_lazy src ops H) as (H1 & _ & _ & _ & H5). auto. Qed.
Print Assumptions C09_call_order.

(** chunk_size is irrelevant: the value and the logs are functions of the computation only;
    parameters are carried separately *)
Theorem C09_chunk_size_irrelevant : forall (V : Type) (src : list V) (ops : list (op V)) n,
  denote (build src (ops ++ [OChunkSize n])) = denote (build src ops) /\
  run_log (build src (ops ++ [OChunkSize n])) = run_log (build src ops).
Proof. intros V src ops n. rewrite build_snoc. split; reflexivity. Qed.
Print Assumptions C09_chunk_size_irrelevant.

(** REFUTED on ties (known finding, DESIGN.md section 6): [max_by] / [max_by_key] are [reduce] with
    the operator "keep the accumulator unless the new element is strictly greater", so among several
    maximal elements the sequential value is the first; [Iterator::max_by_key] returns the last.
    ([min_by] / [min_by_key] keep the first minimum, as std does.) *)
From OrxPar Require Import Exec.
Definition std_max_by_key (m : Z) (l : list Z) : option Z :=
  match l with
  | [] => None
  | x :: r => Some (fold_left (fun acc y => if (acc mod m <=? y mod m)%Z then y else acc) r x)
  end.
Theorem C09_max_by_key_tie_refuted :
  let c := mkCase true [3; 8; 1]%Z [DNumThreads 1; DChunkSize 1] (TMaxKey 5) 16%N [] 10 None false false 0 in
  o_result (exec c) = ROpt (Some 3%Z) /\ std_max_by_key 5 [3; 8; 1]%Z = Some 8%Z.
Proof. vm_compute. split; reflexivity. Qed.
Print Assumptions C09_max_by_key_tie_refuted.
