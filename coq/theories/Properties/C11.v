(** C11 — ChunkSize::Exact(c): every pull takes exactly c elements (settings, then the machine). *)
From OrxPar Require Import Base Settings SettingsP.
Local Open Scope N_scope.

(** [Exact c] resolves to [c] (clamped to the input length when that is known, so that
    a pull still takes min(c, remaining) elements) ... *)
Theorem C11_exact_resolves : forall params task len avail c r,
  p_chunk params = CSExact c -> 1 <= c <= usize_max -> 1 <= avail <= 2 ^ 16 -> len_wf len ->
  runner_new params task len avail = Some r ->
  r_chunk r = RExact (match len with Some l => N.min c (N.max l 1) | None => c end).
Proof. exact runner_new_exact. Qed.
Print Assumptions C11_exact_resolves.

(** ... and every worker spawned later, whatever progress has been made
    ([num_spawned], [has_more] arbitrary), is handed that same value. *)
Theorem C11_exact_kept : forall r ns h x c, runner_wf r -> hm_wf r h ->
  r_chunk r = RExact x -> next_chunk_size r ns h = Some (Some c) -> c = x.
Proof. exact next_chunk_size_exact. Qed.
Print Assumptions C11_exact_kept.

Example C11_example :
  exists r, runner_new (mkParams (NTMax 8) (CSExact 3)) TCollect (Some 100) 16 = Some r /\
            r_chunk r = RExact 3 /\ next_chunk_size r 5 (Some 40) = Some (Some 3).
Proof. exists (mkRunner (Some 100) 8 (RExact 3)). vm_compute. repeat split. Qed.

Local Close Scope N_scope.
From OrxPar Require Import Machine MachineP Program ExactChunks MachineIter MachineIterP MasterIter ExactChunksIter.

(** the machine: with a resolved [Exact x], in every reachable state of every schedule (early exit
    and panics included) every pull of every worker starts at a multiple of [x] and takes exactly
    [x] elements, fewer only if it reaches the end of the source *)
Theorem C11_every_pull_exact : forall (r : Runner) (x : N) (len : nat) (stop panics : nat -> bool)
  (sched : list nat) (w : worker) (b k : nat),
  runner_wf r -> r_chunk r = RExact x ->
  In w (ws (mrunp r len stop panics sched)) -> In (b, k) (pulls w) ->
  csize w = N.to_nat x /\ (exists q, b = q * N.to_nat x) /\ b < len /\ k = Nat.min (N.to_nat x) (len - b).
Proof.
  intros r x len stop panics sched w b k Hw Hx Hin Hp.
  replace (N.to_nat x) with (m_c0 r) by (unfold m_c0; rewrite Hx; reflexivity).
  eapply exact_pulls; eauto.
Qed.
Print Assumptions C11_every_pull_exact.

(** consequently all elements of an aligned block are processed by the same thread *)
Theorem C11_block_one_thread : forall (r : Runner) (x : N) (len : nat) (sched : list nat) (w : worker) (i j : nat),
  runner_wf r -> r_chunk r = RExact x -> all_done (mrun r len (@nostop) sched) ->
  In w (ws (mrun r len (@nostop) sched)) -> In i (seen w) ->
  j < len -> j / N.to_nat x = i / N.to_nat x -> In j (seen w).
Proof.
  intros r x len sched w i j Hw Hx Hd Hin Hi Hj Hb.
  pose proof (mrun_outcome Hw _ _ _ Hd) as Hout.
  destruct (O_full Hout (fun _ => eq_refl)) as [_ Hs].
  pose proof (proj1 (Forall_forall _ _) Hs w Hin) as E. rewrite E in *.
  replace (N.to_nat x) with (m_c0 r) in Hb by (unfold m_c0; rewrite Hx; reflexivity).
  eapply exact_block_one_worker; eauto.
Qed.
Print Assumptions C11_block_one_thread.

(** the same over by-value iterator sources, with the ordered and with the first-come handle: a
    pull is shorter than [x] only if it exhausted the user's iterator *)
Theorem C11_every_pull_exact_iter : forall (r : Runner) (x : N) (len : nat) (ordered : bool)
  (stop panics : nat -> bool) (sched : list nat) (w : iworker) (b k : nat),
  runner_wf r -> r_chunk r = RExact x ->
  In w (iws (imrunp r len ordered stop panics sched)) -> In (b, k) (ipulls w) ->
  icsize w = N.to_nat x /\ (exists q, b = q * N.to_nat x) /\ k <= N.to_nat x /\
  (k = N.to_nat x \/ b + k = len).
Proof.
  intros r x len ordered stop panics sched w b k Hw Hx Hin Hp.
  replace (N.to_nat x) with (m_c0 r) by (unfold m_c0; rewrite Hx; reflexivity).
  eapply exact_pulls_iter; eauto.
Qed.
Print Assumptions C11_every_pull_exact_iter.

(** ten elements, Exact(3), three workers under an uneven schedule: the pulls *)
Example C11_example_pulls :
  let r := mkRunner (Some 10%N) 3%N (RExact 3%N) in
  let s := mrun r 10 (@nostop) ([0; 0; 0] ++ [3; 3; 3; 3; 3; 1; 2] ++ round_robin 3 12) in
  all_doneb s = true /\ map pulls (ws s) = [[(0, 3); (9, 1)]; [(3, 3)]; [(6, 3)]].
Proof. vm_compute. split; reflexivity. Qed.
