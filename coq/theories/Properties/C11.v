(** C11 — ChunkSize::Exact(c): every pull takes exactly c elements (settings part). *)
From OrxPar Require Import Base Settings SettingsP.
Local Open Scope N_scope.

(** [Exact c] resolves to [c] (clamped to the input length when that is known, so that
    a pull still takes min(c, remaining) elements) ... *)
Theorem C11_exact_resolves : forall params task len avail c r,
  p_chunk params = CSExact c -> 1 <= c <= usize_max -> 1 <= avail <= 2 ^ 16 -> len_wf len ->
  runner_new params task len avail = Some r ->
  r_chunk r = RExact (match len with Some l => N.min c (N.max l 1) | None => c end).
Proof. exact runner_new_exact. Qed.
Print Assumptions C11_exact_resolves.

(** ... and every worker spawned later, whatever progress has been made
    ([num_spawned], [has_more] arbitrary), is handed that same value. *)
Theorem C11_exact_kept : forall r ns h x c, runner_wf r -> hm_wf r h ->
  r_chunk r = RExact x -> next_chunk_size r ns h = Some (Some c) -> c = x.
Proof. exact next_chunk_size_exact. Qed.
Print Assumptions C11_exact_kept.

Example C11_example :
  exists r, runner_new (mkParams (NTMax 8) (CSExact 3)) TCollect (Some 100) 16 = Some r /\
            r_chunk r = RExact 3 /\ next_chunk_size r 5 (Some 40) = Some (Some 3).
Proof. exists (mkRunner (Some 100) 8 (RExact 3)). vm_compute. repeat split. Qed.
