(** ExactChunks (C11): with [ChunkSize::Exact(c)] every pull starts at a multiple of [c] and takes
    [c] elements -- fewer only when it reaches the end of the source --, for every worker, for the
    whole run and for every schedule; so an aligned block [q*c, (q+1)*c) is never split between
    two threads. *)
From OrxPar Require Import Base Settings SettingsP Machine MachineP Program.
Set Implicit Arguments.

Section Exact.
Variable len : nat.
Variable known : bool.
Variable stop : nat -> bool.
Variable panics : nat -> bool.
Variable dospawn : nat -> option nat -> bool.
Variable nextc : nat -> option nat -> option nat.
Variable c : nat.
(** the spawner hands the same size to every worker *)
Hypothesis nextc_c : forall n h x, nextc n h = Some x -> x = c.

Notation wstep := (wstep len stop panics).
Notation step := (step len known stop panics dospawn nextc).
Notation run := (run len known stop panics dospawn nextc).

Definition starts_aligned (w : worker) : Prop := Forall (fun p => exists q, fst p = q * c) (pulls w).

Record EInv (s : sys) : Prop := {
  E_cur : cur s = c;
  E_cs : Forall (fun w => csize w = c) (ws s);
  E_ctr : ctr s < len -> exists q, ctr s = q * c;
  E_al : Forall starts_aligned (ws s)
}.

Lemma wstep_E ct f sk w ct' f' sk' w' :
  wstep ct f sk w = (ct', f', sk', w') ->
  csize w = c -> (ct < len -> exists q, ct = q * c) -> starts_aligned w ->
  csize w' = c /\ (ct' < len -> exists q, ct' = q * c) /\ starts_aligned w'.
Proof.
  unfold Machine.wstep, starts_aligned. intros Hs Hc Hq Ha.
  destruct w as [cs p sn ab pl]; cbn [ph csize seen aband pulls] in *. subst cs.
  destruct p as [|b k| | |].
  - destruct (ct <? len) eqn:El.
    + apply Nat.ltb_lt in El. destruct (Hq El) as [q Eq].
      injection Hs as <- <- <- <-. cbn [csize pulls]. split; [reflexivity|split].
      * intros _. exists (S q). subst ct. cbn. lia.
      * apply Forall_app. split; [exact Ha|]. constructor; [|constructor]. exists q. exact Eq.
    + apply Nat.ltb_ge in El. injection Hs as <- <- <- <-. cbn [csize pulls]. split; [reflexivity|split]; auto.
      intros H. lia.
  - destruct k as [|k]; [injection Hs as <- <- <- <-; cbn [csize pulls]; auto|].
    destruct (panics b); [injection Hs as <- <- <- <-; cbn [csize pulls]; auto|].
    destruct (stop b); [injection Hs as <- <- <- <-; cbn [csize pulls]; auto|].
    destruct k; injection Hs as <- <- <- <-; cbn [csize pulls]; auto.
  - injection Hs as <- <- <- <-. cbn [csize pulls]. split; [reflexivity|split]; auto. intros H. lia.
  - injection Hs as <- <- <- <-. auto.
  - injection Hs as <- <- <- <-. auto.
Qed.

Lemma step_EInv s t : EInv s -> EInv (step s t).
Proof.
  intros [Hcur Hcs Hctr Hal]. destruct t as [|i].
  - unfold Machine.step, Machine.sstep, spawn, set_sph.
    assert (Hf : Forall (fun w => csize w = c) (ws s ++ [fresh (cur s)])).
    { apply Forall_app. split; [exact Hcs|]. constructor; [exact Hcur|constructor]. }
    assert (Hg : Forall starts_aligned (ws s ++ [fresh (cur s)])).
    { apply Forall_app. split; [exact Hal|]. constructor; [constructor|constructor]. }
    destruct (sph s); [destruct (dospawn _ _)|destruct (nextc _ _) as [x|] eqn:En| |];
      constructor; cbn [cur ws ctr]; auto.
    apply nextc_c in En. exact En.
  - unfold Machine.step. destruct (nth_error (ws s) i) as [w|] eqn:En; [|constructor; auto].
    destruct (wstep (ctr s) (front s) (skipped s) w) as [[[ct' f'] sk'] w'] eqn:Ew.
    apply nth_error_split in En. destruct En as (l1 & l2 & El & Hi). subst i.
    rewrite El in *. apply Forall_app in Hcs. destruct Hcs as [Hc1 Hc2]. inversion Hc2; subst.
    apply Forall_app in Hal. destruct Hal as [Ha1 Ha2]. inversion Ha2; subst.
    assert (HE : csize w' = c /\ (ct' < len -> exists q, ct' = q * c) /\ starts_aligned w')
      by (eapply wstep_E; eauto).
    destruct HE as (Hc' & Hq' & Ha').
    assert (Eu : upd (l1 ++ w :: l2) (length l1) w' = l1 ++ w' :: l2) by (clear; induction l1; simpl; congruence).
    constructor; cbn [cur ws ctr]; auto; rewrite Eu; apply Forall_app; split; auto.
Qed.

Lemma run_EInv s sched : EInv s -> EInv (run s sched).
Proof. revert s; induction sched as [|t r IH]; intros s H; simpl; auto. apply IH, step_EInv, H. Qed.

Lemma init_EInv : EInv (init c).
Proof. constructor; cbn; auto. intros _. exists 0. reflexivity. Qed.

End Exact.

(** ** with the runner's settings *)
Section ExactRun.
Variable r : Runner.
Hypothesis r_wf : runner_wf r.
Variable x : N.
Hypothesis r_exact : r_chunk r = RExact x.

Lemma m_nextc_exact n h c : m_nextc r n h = Some c -> c = m_c0 r.
Proof.
  unfold m_nextc, m_c0, next_chunk_size, next_chunk_size_unknown_len, next_chunk_size_known_len.
  rewrite r_exact. cbn [r_inner].
  destruct (hm_N h) as [[|rem]|]; try discriminate.
  - destruct (csub (r_max_threads r) 1) as [m1|]; cbn [obind]; [|discriminate].
    destruct (N.leb m1 (N.of_nat n)); [discriminate|]. intros [= <-]. reflexivity.
  - destruct (csub (r_max_threads r) 1) as [m1|]; cbn [obind]; [|discriminate].
    destruct (N.leb m1 (N.of_nat n)); [discriminate|]. intros [= <-]. reflexivity.
Qed.

(** C11: every pull of every worker, in every reachable state of every schedule (early exit and
    panics included): it starts at a multiple of the resolved size, and takes exactly that many
    elements unless it reaches the end of the source *)
Theorem exact_pulls len stop panics sched w b k :
  In w (ws (mrunp r len stop panics sched)) -> In (b, k) (pulls w) ->
  csize w = m_c0 r /\ (exists q, b = q * m_c0 r) /\ b < len /\ k = Nat.min (m_c0 r) (len - b).
Proof.
  intros Hw Hp.
  assert (E : EInv len (m_c0 r) (mrunp r len stop panics sched)).
  { unfold mrunp. apply run_EInv; [intros n h c; apply m_nextc_exact|apply init_EInv]. }
  pose proof (mrunp_GInv r_wf len stop panics sched) as G.
  pose proof (proj1 (Forall_forall _ _) (E_cs E) w Hw) as Hc.
  pose proof (proj1 (Forall_forall _ _) (E_al E) w Hw) as Ha.
  pose proof (proj1 (Forall_forall _ _) (G_w G) w Hw) as HW.
  pose proof (proj1 (Forall_forall _ _) Ha (b, k) Hp) as [q Hq].
  pose proof (proj1 (Forall_forall _ _) (W_pulls HW) (b, k) Hp) as [Hlt Hk]. cbn [fst snd] in *.
  rewrite Hc in Hk. repeat split; auto. exists q. exact Hq.
Qed.

(** ... consequently an aligned block is never split: if a worker pulled position [i], it pulled
    every position of [i]'s block that exists *)
Theorem exact_block_one_worker len stop panics sched w i j :
  In w (ws (mrunp r len stop panics sched)) -> In i (chunks_of (pulls w)) ->
  j < len -> j / m_c0 r = i / m_c0 r -> In j (chunks_of (pulls w)).
Proof.
  intros Hw Hi Hj Hblk. unfold chunks_of in *. apply in_flat_map in Hi. destruct Hi as ([b k] & Hp & Hin).
  cbn [fst snd] in Hin. apply in_seq in Hin.
  assert (HE : csize w = m_c0 r /\ (exists q, b = q * m_c0 r) /\ b < len /\ k = Nat.min (m_c0 r) (len - b))
    by (eapply exact_pulls; eauto).
  destruct HE as (_ & [q Hq] & Hlt & Hk).
  pose proof (m_c0_pos r_wf) as Hpos. set (c := m_c0 r) in *.
  apply in_flat_map. exists (b, k). split; auto. cbn [fst snd]. apply in_seq.
  assert (Hiq : i / c = q).
  { subst b. symmetry. apply (Nat.div_unique i c q (i - q * c)); [|lia]. lia. }
  assert (Hjq : j / c = q) by congruence.
  pose proof (Nat.div_mod j c ltac:(lia)) as Hdm. pose proof (Nat.mod_upper_bound j c ltac:(lia)) as Hmb.
  rewrite Hjq in Hdm. subst b. lia.
Qed.

End ExactRun.
