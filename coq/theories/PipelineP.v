(** PipelineP: the library's closure composition denotes the std chain.

    - every lazy transformation extends the per-element trace by exactly the new stage
      ([compose_trace]);
    - hence for every sequence of operations, whatever eager sites it goes through, the value a
      full consumer sees is the sequential chain's value ([build_denote]), the calls made
      (at construction time and at run time together) are a permutation of the sequential
      chain's calls ([build_calls_perm]), and parameters are the last ones set ([build_params]);
    - construction runs user code exactly at the eight eager sites ([build_lazy], [eager_sites]). *)
From OrxPar Require Import Base Settings Spec Pipeline.
Set Implicit Arguments.

Section PipelineP.
Variable V : Type.
Implicit Types (x y v : V) (l : clog V) (p : par V) (s : stage V).

(** ** [inj] *)
Lemma inj_app l1 l2 : inj (l1 ++ l2) = inj l1 ++ inj l2.
Proof. unfold inj. apply map_app. Qed.

Lemma inj_nil : inj (@nil (nat * V)) = [].
Proof. reflexivity. Qed.

Lemma bind_inj l (r : list (event V)) k : bind (inj l ++ r) k = inj l ++ bind r k.
Proof. induction l as [|[id a] l IH]; simpl; [reflexivity|]. now rewrite bind_call, IH. Qed.

Lemma bind_inj_only l (k : V -> list (event V)) : bind (inj l) k = inj l.
Proof. rewrite <- (app_nil_r (inj l)) at 1. rewrite bind_inj. simpl. now rewrite app_nil_r. Qed.

Lemma yields_inj l : yields (inj l) = [].
Proof. induction l as [|[id a] l IH]; [reflexivity|]. exact IH. Qed.

Lemma calls_inj l : calls (inj l) = l.
Proof.
  induction l as [|[id a] l IH]; [reflexivity|].
  change (calls (inj ((id, a) :: l))) with ((id, a) :: calls (inj l)). now rewrite IH.
Qed.

Lemma yields_cons_call id a (r : list (event V)) : yields (ECall id a :: r) = yields r.
Proof. reflexivity. Qed.
Lemma yields_cons_yield v (r : list (event V)) : yields (EYield v :: r) = v :: yields r.
Proof. reflexivity. Qed.
Lemma calls_cons_call id a (r : list (event V)) : calls (ECall id a :: r) = (id, a) :: calls r.
Proof. reflexivity. Qed.
Lemma calls_cons_yield v (r : list (event V)) : calls (EYield v :: r) = calls r.
Proof. reflexivity. Qed.

(** ** one stage *)
Lemma ev1_map id f v : ev [SMap id f] v = [ECall id v; EYield (f v)].
Proof. reflexivity. Qed.
Lemma ev1_filter id q v : ev [SFilter id q] v = ECall id v :: (if q v then [EYield v] else []).
Proof. reflexivity. Qed.
Lemma ev1_flat_map id g v : ev [SFlatMap id g] v = ECall id v :: map (@EYield V) (g v).
Proof.
  cbn [ev]. reflexivity.
Qed.
Lemma ev1_filter_map id h v :
  ev [SFilterMap id h] v = ECall id v :: (match h v with Some y => [EYield y] | None => [] end).
Proof. reflexivity. Qed.

Lemma ev_fil_no_filter y : ev_fil (@no_filter V) y = [EYield y].
Proof. reflexivity. Qed.

Lemma bind_ev_fil_no_filter (t : list (event V)) : bind t (ev_fil (@no_filter V)) = t.
Proof. rewrite <- (bind_ret t) at 2. apply bind_ext. intros v. apply ev_fil_no_filter. Qed.

Lemma ev_fil_and f1 f2 y : ev_fil (and_fil f1 f2) y = bind (ev_fil f1 y) (ev_fil f2).
Proof.
  unfold ev_fil, and_fil. destruct (f1 y) as [l1 b1]. destruct b1.
  - rewrite bind_inj, bind_yield1. cbv beta. destruct (f2 y) as [l2 b2].
    rewrite inj_app, <- app_assoc. reflexivity.
  - rewrite bind_inj. reflexivity.
Qed.

Lemma ev_fil_ufil id q y :
  ev_fil (ufil id q) y = ECall id y :: (if q y then [EYield y] else []).
Proof. reflexivity. Qed.

(** the trace of a flat_map type is the stream with the filter run on every item *)
Lemma trace_shapes p x :
  trace p x =
  match p with
  | PEmpty => [EYield x]
  | PMap m => inj (fst (m x)) ++ [EYield (snd (m x))]
  | PFilter f => ev_fil f x
  | PMapFilter m f => inj (fst (m x)) ++ ev_fil f (snd (m x))
  | PFilterMap fm => inj (fst (fm x)) ++ match snd (fm x) with Some y => [EYield y] | None => [] end
  | PFilterMapFilter fm f =>
      inj (fst (fm x)) ++ match snd (fm x) with Some y => ev_fil f y | None => [] end
  | PFlatMap fl => fl x
  | PFlatMapFilter fl f => bind (fl x) (ev_fil f)
  end.
Proof.
  destruct p as [|m|f|m f|fm|fm f|fl|fl f]; cbn [trace]; unfold tr_mf, tr_fmf, tr_flf.
  - reflexivity.
  - destruct (m x) as [l y]. reflexivity.
  - reflexivity.
  - destruct (m x) as [l y]. reflexivity.
  - destruct (fm x) as [l [y|]]; reflexivity.
  - destruct (fm x) as [l [y|]]; reflexivity.
  - apply bind_ev_fil_no_filter.
  - reflexivity.
Qed.

Ltac norm :=
  cbn [fst snd];
  repeat first
    [ rewrite inj_app | rewrite bind_inj | rewrite bind_yield1 | rewrite bind_nil
    | rewrite <- app_assoc | rewrite app_nil_r | rewrite bind_call | rewrite bind_yield
    | rewrite bind_app ];
  cbn [fst snd]; rewrite ?ev1_map, ?ev1_filter, ?ev1_filter_map, ?ev1_flat_map.

(** ** every lazy transformation appends exactly the new stage to the per-element trace *)
Theorem compose_trace p s x :
  eager (kind_of p) (tkind_of s) = false ->
  trace (compose p s) x = bind (trace p x) (ev [s]).
Proof.
  intros He. rewrite (trace_shapes p x), (trace_shapes (compose p s) x).
  destruct p as [|m|f|m f|fm|fm f|fl|fl f];
    destruct s as [id g|id q|id g|id h]; try discriminate He; cbn [compose fresh_par];
    rewrite ?ev1_flat_map.
  (* PEmpty *)
  - rewrite bind_yield1. reflexivity.
  - rewrite bind_yield1. reflexivity.
  - rewrite bind_yield1, ev1_flat_map. reflexivity.
  - rewrite bind_yield1. unfold ufm; cbn. destruct (h x); reflexivity.
  (* PMap *)
  - unfold comp_map, umap. destruct (m x) as [l y]; cbn [fst snd]. norm. reflexivity.
  - destruct (m x) as [l y]; cbn [fst snd]. norm. reflexivity.
  - unfold map_then_fl, ufl. destruct (m x) as [l y]; cbn [fst snd]. norm. reflexivity.
  - unfold map_then_fm, ufm. destruct (m x) as [l y]; cbn [fst snd]. norm. destruct (h y); reflexivity.
  (* PFilter *)
  - unfold fil_then_map, umap, ev_fil. destruct (f x) as [l b]. destruct b; norm; reflexivity.
  - rewrite ev_fil_and. apply bind_ext. intros v. reflexivity.
  - unfold fil_then_fm, ufm, ev_fil. destruct (f x) as [l b]. destruct b; norm; [|reflexivity].
    destruct (h x); reflexivity.
  (* PMapFilter *)
  - unfold mapfil_then_map, umap, ev_fil. destruct (m x) as [l y]; cbn [fst snd]. destruct (f y) as [l2 b].
    destruct b; norm; reflexivity.
  - destruct (m x) as [l y]; cbn [fst snd]. norm. rewrite ev_fil_and. f_equal; try (apply bind_ext; reflexivity).
  - unfold mapfil_then_fm, ufm, ev_fil. destruct (m x) as [l y]; cbn [fst snd]. destruct (f y) as [l2 b].
    destruct b; norm; [|reflexivity]. destruct (h y); reflexivity.
  (* PFilterMap *)
  - unfold fm_then_map, umap. destruct (fm x) as [l [y|]]; cbn [fst snd]; norm; reflexivity.
  - destruct (fm x) as [l [y|]]; cbn [fst snd]; norm; reflexivity.
  - unfold fm_then_fm, ufm. destruct (fm x) as [l [y|]]; cbn [fst snd]; norm; [|reflexivity].
    destruct (h y); reflexivity.
  (* PFilterMapFilter *)
  - unfold fmfil_then_map, umap, ev_fil. destruct (fm x) as [l [y|]]; cbn [fst snd]; norm; [|reflexivity].
    destruct (f y) as [l2 b]. destruct b; norm; reflexivity.
  - destruct (fm x) as [l [y|]]; cbn [fst snd]; norm; [|reflexivity]. rewrite ev_fil_and. f_equal; try (apply bind_ext; reflexivity).
  - unfold fmfil_then_fm, ufm, ev_fil. destruct (fm x) as [l [y|]]; cbn [fst snd]; norm; [|reflexivity].
    destruct (f y) as [l2 b]. destruct b; norm; [|reflexivity]. destruct (h y); reflexivity.
  (* PFlatMap *)
  - unfold fl_then_map, umap. apply bind_ext. intros v. reflexivity.
  - unfold fl_then_fl, ufl. apply bind_ext. intros v. reflexivity.
  - apply bind_ext. intros v. reflexivity.
  (* PFlatMapFilter *)
  - rewrite bind_assoc. apply bind_ext. intros v. rewrite ev_fil_and. apply bind_ext. reflexivity.
Qed.

Lemma fresh_trace s x : trace (fresh_par s) x = ev [s] x.
Proof.
  rewrite trace_shapes. destruct s as [id g|id q|id g|id h]; cbn [fresh_par].
  - reflexivity.
  - reflexivity.
  - now rewrite ev1_flat_map.
  - unfold ufm; cbn. destruct (h x); reflexivity.
Qed.

(** ** calls and yields of a continued trace *)
Lemma calls_bind_perm (t : list (event V)) k :
  Permutation (calls (bind t k)) (calls t ++ flat_map (fun v => calls (k v)) (yields t)).
Proof.
  induction t as [|[id a|v] t IH].
  - reflexivity.
  - rewrite bind_call, !calls_cons_call, yields_cons_call. simpl. now constructor.
  - rewrite bind_yield, calls_app, calls_cons_yield, yields_cons_yield. simpl.
    rewrite IH. rewrite !app_assoc. apply Permutation_app_tail. apply Permutation_app_comm.
Qed.

Lemma flat_map_perm {A B} (f g : A -> list B) (xs : list A) :
  (forall a, Permutation (f a) (g a)) -> Permutation (flat_map f xs) (flat_map g xs).
Proof.
  intros H. induction xs as [|a xs IH]; simpl; [reflexivity|]. now rewrite H, IH.
Qed.

Lemma flat_map_app_perm {A B} (f g : A -> list B) (xs : list A) :
  Permutation (flat_map (fun a => f a ++ g a) xs) (flat_map f xs ++ flat_map g xs).
Proof.
  induction xs as [|a xs IH]; simpl; [reflexivity|]. rewrite IH.
  rewrite <- !app_assoc. apply Permutation_app_head.
  rewrite !app_assoc. apply Permutation_app_tail. apply Permutation_app_comm.
Qed.

Lemma flat_map_flat_map {A B C} (f : A -> list B) (g : B -> list C) (xs : list A) :
  flat_map g (flat_map f xs) = flat_map (fun a => flat_map g (f a)) xs.
Proof. induction xs as [|a xs IH]; simpl; [reflexivity|]. now rewrite flat_map_app, IH. Qed.

(** ** the invariant of [build] *)

(** [c] = the stages applied so far; [src0] = the original source. *)
Record BInv (src0 : list V) (c : chain V) (st : pstate V) : Prop := {
  B_trace : exists c1 c2, c = c1 ++ c2 /\ ps_src st = seq_chain c1 src0 /\
                          (forall x, trace (ps_par st) x = ev c2 x) /\
                          Permutation (ps_clog st) (seq_log c1 src0) /\
                          (ps_runs st = 0 -> c1 = [] /\ ps_clog st = [] /\ ps_consumed st = 0)
}.

Lemma seq_log_app_perm c1 c2 (src0 : list V) :
  Permutation (seq_log (c1 ++ c2) src0) (seq_log c1 src0 ++ seq_log c2 (seq_chain c1 src0)).
Proof.
  unfold seq_log, seq_chain.
  rewrite flat_map_flat_map.
  rewrite <- flat_map_app_perm. apply flat_map_perm. intros a.
  rewrite ev_app, calls_bind_perm. apply Permutation_app_head.
  rewrite yields_ev. reflexivity.
Qed.

Lemma seq_chain_nil (src : list V) : seq_chain [] src = src.
Proof. unfold seq_chain. induction src as [|a r IH]; simpl; [reflexivity|]. f_equal. exact IH. Qed.

Lemma seq_log_nil (src : list V) : seq_log [] src = [].
Proof. unfold seq_log. induction src as [|a r IH]; simpl; [reflexivity|]. exact IH. Qed.

Lemma init_BInv src0 : BInv src0 [] (init_state src0).
Proof.
  constructor. exists [], []. cbn. repeat split; try reflexivity.
  - now rewrite seq_chain_nil.
  - now rewrite seq_log_nil.
Qed.

Lemma apply_stage_BInv src0 c st s :
  BInv src0 c st -> BInv src0 (c ++ [s]) (apply_stage st s).
Proof.
  intros [(c1 & c2 & -> & Hsrc & Htr & Hlog & Hz)]. constructor. unfold apply_stage.
  destruct (eager (kind_of (ps_par st)) (tkind_of s)) eqn:He; cbn.
  - (* eager: the upstream stage is materialised *)
    exists ((c1 ++ c2)), [s]. repeat split.
    + rewrite yields_flat_map. rewrite seq_chain_app, <- Hsrc. unfold seq_chain.
      apply flat_map_ext. intros a. rewrite Htr. apply yields_ev.
    + intros x. apply fresh_trace.
    + rewrite seq_log_app_perm, <- Hsrc. apply Permutation_app; [exact Hlog|].
      unfold seq_log. rewrite calls_flat_map.
      erewrite flat_map_ext; [reflexivity|]. intros a. now rewrite Htr.
    + discriminate.
    + discriminate.
    + discriminate.
  - exists c1, (c2 ++ [s]). repeat split; auto.
    + now rewrite app_assoc.
    + intros x. rewrite compose_trace by exact He. rewrite Htr. now rewrite ev_app.
    + apply Hz; assumption.
    + apply Hz; assumption.
    + apply Hz; assumption.
Qed.


Implicit Types (ops : list (op V)) (st : pstate V) (o : op V) (src : list V).

Lemma apply_op_BInv src0 ops st o :
  BInv src0 (stages_of ops) st -> BInv src0 (stages_of (ops ++ [o])) (apply_op st o).
Proof.
  intros H. unfold stages_of. rewrite flat_map_app. cbn [flat_map]. rewrite app_nil_r.
  destruct o as [s|n|n|n]; cbn [apply_op].
  - apply apply_stage_BInv. exact H.
  - rewrite app_nil_r. destruct H as [(c1 & c2 & E & H1 & H2 & H3 & H4)].
    constructor. exists c1, c2. cbn. auto.
  - rewrite app_nil_r. destruct H as [(c1 & c2 & E & H1 & H2 & H3 & H4)].
    constructor. exists c1, c2. cbn. auto.
  - rewrite app_nil_r. destruct H as [(c1 & c2 & E & H1 & H2 & H3 & H4)].
    constructor. exists c1, c2. cbn. auto.
Qed.

Lemma build_snoc src ops o : build src (ops ++ [o]) = apply_op (build src ops) o.
Proof. unfold build. now rewrite fold_left_app. Qed.

Theorem build_BInv src ops : BInv src (stages_of ops) (build src ops).
Proof.
  induction ops as [|o ops IH] using rev_ind.
  - apply init_BInv.
  - rewrite build_snoc. apply apply_op_BInv. exact IH.
Qed.

(** The value a full consumer sees is the sequential chain's value, for every sequence of
    operations on every one of the eight types, through any number of eager sites. *)
Theorem build_denote src ops : denote (build src ops) = seq_chain (stages_of ops) src.
Proof.
  destruct (build_BInv src ops) as [(c1 & c2 & E & H1 & H2 & _)].
  unfold denote. rewrite yields_flat_map, H1, E, seq_chain_app. unfold seq_chain at 1.
  apply flat_map_ext. intros a. rewrite H2. apply yields_ev.
Qed.

(** Construction-time and run-time calls together are exactly the sequential chain's calls. *)
Theorem build_calls_perm src ops :
  Permutation (ps_clog (build src ops) ++ run_log (build src ops)) (seq_log (stages_of ops) src).
Proof.
  destruct (build_BInv src ops) as [(c1 & c2 & E & H1 & H2 & H3 & _)].
  rewrite E, seq_log_app_perm. apply Permutation_app; [exact H3|].
  unfold run_log, seq_log. rewrite calls_flat_map, H1.
  erewrite flat_map_ext; [reflexivity|]. intros a. now rewrite H2.
Qed.

(** A computation built without passing an eager site has run nothing and consumed nothing,
    and its run-time calls are the sequential ones in the sequential order. *)
Theorem build_lazy src ops : ps_runs (build src ops) = 0 ->
  ps_clog (build src ops) = [] /\ ps_consumed (build src ops) = 0 /\
  ps_src (build src ops) = src /\
  (forall x, trace (ps_par (build src ops)) x = ev (stages_of ops) x) /\
  run_log (build src ops) = seq_log (stages_of ops) src.
Proof.
  intros Hr. destruct (build_BInv src ops) as [(c1 & c2 & E & H1 & H2 & H3 & H4)].
  destruct (H4 Hr) as (-> & Hc & Hn). cbn [app] in E. subst c2.
  rewrite seq_chain_nil in H1. repeat split; auto.
  unfold run_log, seq_log. rewrite calls_flat_map, H1. apply flat_map_ext. intros a. now rewrite H2.
Qed.

(** ** parameters (C12) *)
Definition set_params (p : Params) (o : op V) : Params :=
  match o with
  | OStage _ => p
  | ONumThreads n => with_num_threads p (nt_of_usize n)
  | OChunkSize n => with_chunk_size p (cs_of_usize n)
  | OChunkMin n => with_chunk_size p (CSMin n)
  end.

Lemma apply_op_params st o : ps_params (apply_op st o) = set_params (ps_params st) o.
Proof.
  destruct o as [s|n|n|n]; cbn; try reflexivity.
  unfold apply_stage. destruct (eager _ _); reflexivity.
Qed.

Theorem build_params src ops :
  ps_params (build src ops) = fold_left set_params ops params_default.
Proof.
  induction ops as [|o ops IH] using rev_ind; [reflexivity|].
  rewrite build_snoc, fold_left_app, apply_op_params, IH. reflexivity.
Qed.

(** last value set, for each of the two parameters *)
Fixpoint last_threads (ops : list (op V)) (d : NumThreads) : NumThreads :=
  match ops with
  | [] => d
  | ONumThreads n :: r => last_threads r (nt_of_usize n)
  | _ :: r => last_threads r d
  end.
Fixpoint last_chunk (ops : list (op V)) (d : ChunkSize) : ChunkSize :=
  match ops with
  | [] => d
  | OChunkSize n :: r => last_chunk r (cs_of_usize n)
  | OChunkMin n :: r => last_chunk r (CSMin n)
  | _ :: r => last_chunk r d
  end.

Lemma fold_set_params ops (pr : Params) :
  fold_left set_params ops pr =
  mkParams (last_threads ops (p_threads pr)) (last_chunk ops (p_chunk pr)).
Proof.
  revert pr; induction ops as [|o ops IH]; intros pr; [destruct pr; reflexivity|].
  cbn [fold_left]. rewrite IH. destruct o as [s|n|n|n]; reflexivity.
Qed.

Theorem build_params_last src ops :
  ps_params (build src ops) = mkParams (last_threads ops NTAuto) (last_chunk ops CSAuto).
Proof. rewrite build_params, fold_set_params. reflexivity. Qed.

(** ** type transitions and eager sites (C16) *)
Definition next_kind (k : kind) (t : tkind) : kind :=
  if eager k t then
    match t with TMap => KMap | TFilter => KFilter | TFlatMap => KFlatMap | TFilterMap => KFilterMap end
  else
  match k, t with
  | KEmpty, TMap => KMap | KEmpty, TFilter => KFilter | KEmpty, TFlatMap => KFlatMap
  | KEmpty, TFilterMap => KFilterMap
  | KMap, TMap => KMap | KMap, TFilter => KMapFilter | KMap, TFlatMap => KFlatMap
  | KMap, TFilterMap => KFilterMap
  | KFilter, TFilter => KFilter | KFilter, _ => KFilterMap
  | KMapFilter, TFilter => KMapFilter | KMapFilter, _ => KFilterMap
  | KFilterMap, TFilter => KFilterMapFilter | KFilterMap, _ => KFilterMap
  | KFilterMapFilter, TFilter => KFilterMapFilter | KFilterMapFilter, _ => KFilterMap
  | KFlatMap, TFilter => KFlatMapFilter | KFlatMap, _ => KFlatMap
  | KFlatMapFilter, _ => KFlatMapFilter
  end.

Lemma apply_stage_kind st s :
  kind_of (ps_par (apply_stage st s)) = next_kind (kind_of (ps_par st)) (tkind_of s).
Proof.
  unfold apply_stage, next_kind.
  destruct (ps_par st) as [|m|f|m f|fm|fm f|fl|fl f]; destruct s as [id g|id q|id g|id h]; reflexivity.
Qed.

Definition known_eager : list (kind * tkind) :=
  [(KFilter, TFlatMap); (KMapFilter, TFlatMap); (KFilterMap, TFlatMap); (KFilterMapFilter, TFlatMap);
   (KFlatMapFilter, TMap); (KFlatMapFilter, TFlatMap); (KFlatMapFilter, TFilterMap);
   (KFlatMap, TFilterMap)].

Lemma eager_sites k t : eager k t = true <-> In (k, t) known_eager.
Proof.
  unfold known_eager; split.
  - destruct k, t; cbn; intros H; try discriminate H; tauto.
  - intros H. cbn in H.
    repeat (destruct H as [H|H]; [injection H as <- <-; reflexivity|]). destruct H.
Qed.

(** Outside the known eager sites a transformation runs nothing: no closure call, no source
    element consumed, the source untouched; and parameter setters never run anything. *)
Theorem apply_stage_lazy st s :
  ~ In (kind_of (ps_par st), tkind_of s) known_eager ->
  ps_clog (apply_stage st s) = ps_clog st /\ ps_consumed (apply_stage st s) = ps_consumed st /\
  ps_src (apply_stage st s) = ps_src st /\ ps_runs (apply_stage st s) = ps_runs st.
Proof.
  intros H. unfold apply_stage.
  destruct (eager (kind_of (ps_par st)) (tkind_of s)) eqn:E.
  - exfalso. apply H. apply eager_sites. exact E.
  - cbn. auto.
Qed.

Theorem setters_lazy st o : (forall s, o <> OStage s) ->
  ps_clog (apply_op st o) = ps_clog st /\ ps_consumed (apply_op st o) = ps_consumed st /\
  ps_src (apply_op st o) = ps_src st /\ ps_par (apply_op st o) = ps_par st.
Proof. intros H. destruct o as [s|n|n|n]; cbn; auto. exfalso. now apply (H s). Qed.

(** At a known eager site the whole upstream stage is evaluated during construction. *)
Theorem apply_stage_eager st s :
  In (kind_of (ps_par st), tkind_of s) known_eager ->
  ps_clog (apply_stage st s) = ps_clog st ++ run_log st /\
  ps_consumed (apply_stage st s) = ps_consumed st + length (ps_src st) /\
  ps_src (apply_stage st s) = denote st.
Proof.
  intros H. apply eager_sites in H. unfold apply_stage. rewrite H. cbn. auto.
Qed.

End PipelineP.
