(** ExecP: the value the executable model computes in its parallel branch is the value of its
    sequential branch.

    [Exec.exec] is what the correspondence checks run against the crate.  Its parallel branch runs
    a runner machine under the case's schedule and applies [finish] to what the workers did; its
    sequential branch applies [finish_seq] (the std chain over the composed closures).  Here:
    for every terminal, every computation [p], every source and every completed panic-free run of
    either machine, [finish] = [finish_seq] (up to the order of [collect_x]; reduce-family
    operators associative and commutative).  So a value that differs from the model's differs
    from the sequential specification. *)
From OrxPar Require Import Base Settings SettingsP Spec Pipeline PipelineP Machine MachineP Termination
  MachineIter MachineIterP TerminationIter Kernels KernelsP Own Program Master MasterIter Exec.
Set Implicit Arguments.

Definition req (a b : result) : Prop :=
  match a, b with
  | RBag x, RBag y => Permutation x y
  | _, _ => a = b
  end.

Section FinishSpec.
Variables (p : par Z) (src : list Z) (wl : list worker).
Let pe := pe_of p src.
Let n := length src.

Lemma vals_yields : flat_map (vals pe) (seq 0 n) = yields (flat_map (trace p) src).
Proof.
  unfold vals, pe, n. rewrite (flat_map_positions (@yields Z) p src). symmetry. apply yields_flat_map.
Qed.

(** the sequential find loop is [find_in] over the positions *)
Fixpoint seq_go (i : nat) (l : list Z) : list (nat * Z) * option (nat * Z) :=
  match l with
  | [] => ([], None)
  | x :: r =>
      let '(pre, o) := upto_yield (trace p x) in
      match o with
      | Some v => (calls pre, Some (i, v))
      | None => let '(lg, res) := seq_go (S i) r in (calls pre ++ lg, res)
      end
  end.

Lemma seq_go_find_in : forall (l : list Z) (i : nat),
  (forall j x, nth_error l j = Some x -> nth_error src (i + j) = Some x) ->
  snd (seq_go i l) = find_in pe (seq i (length l)).
Proof.
  induction l as [|x r IH]; intros i H; [reflexivity|].
  cbn [length seq find_in seq_go].
  assert (Hx : pe i = trace p x).
  { unfold pe, pe_of. specialize (H 0 x eq_refl). rewrite Nat.add_0_r in H. rewrite H. reflexivity. }
  rewrite Hx. unfold first_yield.
  destruct (upto_yield (trace p x)) as [pre o] eqn:E. cbn [snd].
  destruct o as [v|]; [reflexivity|].
  specialize (IH (S i)).
  destruct (seq_go (S i) r) as [lg res] eqn:EG.
  cbn [snd] in *. apply IH.
  intros j y Hj. specialize (H (S j) y Hj). replace (S i + j) with (i + S j) by lia. exact H.
Qed.

Lemma finish_seq_find t : is_find t = true ->
  fst (finish_seq t (flat_map (trace p) src) src p) =
  match t with
  | TFind _ | TFirst => ROpt (option_map snd (snd (seq_go 0 src)))
  | TFindIx _ | TFirstIx => ROptIx (snd (seq_go 0 src))
  | TAny _ => RBool (match snd (seq_go 0 src) with Some _ => true | None => false end)
  | _ => RBool (match snd (seq_go 0 src) with Some _ => false | None => true end)
  end.
Proof.
  intros Ht. destruct t; try discriminate Ht; cbn [finish_seq];
    change ((fix go (i : nat) (l : list Z) {struct l} : list (nat * Z) * option (nat * Z) :=
               match l with
               | [] => ([], None)
               | x :: r =>
                   let '(pre, o) := upto_yield (trace p x) in
                   match o with
                   | Some v => (calls pre, Some (i, v))
                   | None => let '(lg, res) := go (S i) r in (calls pre ++ lg, res)
                   end
               end) 0 src) with (seq_go 0 src);
    destruct (seq_go 0 src) as [lg res]; reflexivity.
Qed.

Section Full.
Hypothesis Hout : Outcome n (@nostop) wl.
(** the bag path needs one value per element (map-only computations) *)
Hypothesis one_each : kind_of p = KMap -> forall x, length (yields (trace p x)) = 1.

Lemma bag_path old : kind_of p = KMap ->
  res_map_col pe old n wl = Some (old ++ yields (flat_map (trace p) src)).
Proof.
  intros Hk. rewrite <- vals_yields.
  apply (res_map_col_eq pe Hout (fun _ => eq_refl)).
  intros i Hi. unfold vals, pe, pe_of, n in *.
  destruct (nth_error src i) as [x|] eqn:E; [apply (one_each Hk)|].
  apply nth_error_None in E. lia.
Qed.

Theorem finish_full (t : terminal) :
  is_find t = false ->
  (forall f, red_family t = Some f ->
     (forall a b c, f (f a b) c = f a (f b c)) /\ (forall a b, f a b = f b a)) ->
  req (finish t pe n (kind_of p) 0 wl) (fst (finish_seq t (flat_map (trace p) src) src p)).
Proof.
  intros t_full op_ok.
  pose proof vals_yields as VY.
  assert (BP : forall old, kind_of p = KMap ->
                 res_map_col pe old n wl = Some (old ++ yields (flat_map (trace p) src)))
    by (intros old Hk; apply bag_path; exact Hk).
  destruct t; try discriminate t_full; cbn [finish finish_seq fst req].
  - (* collect_vec *)
    destruct (kind_of p) eqn:Ek; try (rewrite (res_col_eq pe Hout (fun _ => eq_refl)), VY; reflexivity).
    rewrite res_map_col_adv_0, (BP [] eq_refl). reflexivity.
  - destruct (kind_of p) eqn:Ek; try (rewrite (res_col_eq pe Hout (fun _ => eq_refl)), VY; reflexivity).
    rewrite res_map_col_adv_0, (BP [] eq_refl). reflexivity.
  - (* collect_x *)
    rewrite <- VY. apply (res_colx_perm pe Hout). reflexivity.
  - (* collect_into *)
    destruct (kind_of p) eqn:Ek; try (rewrite (res_col_eq pe Hout (fun _ => eq_refl)), VY; reflexivity).
    rewrite res_map_col_adv_0, (BP _ eq_refl). reflexivity.
  - (* count *)
    rewrite (res_cnt_eq pe Hout (fun _ => eq_refl)), VY. reflexivity.
  - (* for_each *)
    reflexivity.
  - (* reduce family *)
    cbn [red_family]. destruct (op_ok _ eq_refl) as [Ha Hc].
    rewrite (res_red_eq pe Hout (fun _ => eq_refl) _ Ha Hc), VY. reflexivity.
  - cbn [red_family]. destruct (op_ok _ eq_refl) as [Ha Hc].
    rewrite (res_red_eq pe Hout (fun _ => eq_refl) _ Ha Hc), VY. reflexivity.
  - cbn [red_family]. destruct (op_ok _ eq_refl) as [Ha Hc].
    rewrite (res_red_eq pe Hout (fun _ => eq_refl) _ Ha Hc), VY. reflexivity.
  - cbn [red_family]. destruct (op_ok _ eq_refl) as [Ha Hc].
    rewrite (res_red_eq pe Hout (fun _ => eq_refl) _ Ha Hc), VY. reflexivity.
  - cbn [red_family]. destruct (op_ok _ eq_refl) as [Ha Hc].
    rewrite (res_red_eq pe Hout (fun _ => eq_refl) _ Ha Hc), VY. reflexivity.
  - cbn [red_family]. destruct (op_ok _ eq_refl) as [Ha Hc].
    rewrite (res_red_eq pe Hout (fun _ => eq_refl) _ Ha Hc), VY. reflexivity.
  - cbn [red_family]. destruct (op_ok _ eq_refl) as [Ha Hc].
    rewrite (res_red_eq pe Hout (fun _ => eq_refl) _ Ha Hc), VY. reflexivity.
  - cbn [red_family]. destruct (op_ok _ eq_refl) as [Ha Hc].
    rewrite (res_red_eq pe Hout (fun _ => eq_refl) _ Ha Hc), VY. reflexivity.
  - cbn [red_family]. destruct (op_ok _ eq_refl) as [Ha Hc].
    rewrite (res_red_eq pe Hout (fun _ => eq_refl) _ Ha Hc), VY. reflexivity.
Qed.
End Full.

Section Find.
Hypothesis Hout : Outcome n (stop_of p src) wl.

Theorem finish_find (t : terminal) :
  is_find t = true ->
  finish t pe n (kind_of p) 0 wl = fst (finish_seq t (flat_map (trace p) src) src p).
Proof.
  intros t_find.
  assert (E : res_find pe wl = find_in pe (seq 0 n)).
  { apply (res_find_eq pe Hout). intros i. reflexivity. }
  pose proof (seq_go_find_in src 0 (fun j x H => H)) as G. fold n in G.
  rewrite (finish_seq_find t t_find), G, <- E.
  destruct t; try discriminate t_find; reflexivity.
Qed.
End Find.

End FinishSpec.

(** ** with the machines: every completed panic-free run, every schedule *)
Section RunSpec.
Variables (r : Runner) (p : par Z) (src : list Z) (t : terminal).
Hypothesis r_wf : runner_wf r.
Let n := length src.
Let stop := if is_find t then stop_of p src else (@nostop).
Hypothesis one_each : kind_of p = KMap -> forall x, length (yields (trace p x)) = 1.
Hypothesis op_ok : forall f, red_family t = Some f ->
  (forall a b c, f (f a b) c = f a (f b c)) /\ (forall a b, f a b = f b a).

Lemma finish_of_outcome wl : Outcome n stop wl ->
  req (finish t (pe_of p src) n (kind_of p) 0 wl) (fst (finish_seq t (flat_map (trace p) src) src p)).
Proof.
  unfold stop. intros H. destruct (is_find t) eqn:E.
  - pose proof (finish_find H t E) as F. unfold n. rewrite F.
    destruct (fst (finish_seq t (flat_map (trace p) src) src p)); cbn; auto.
  - apply finish_full; auto.
Qed.

(** indexed sources *)
Theorem exec_value_indexed sched :
  all_done (mrun r n stop sched) ->
  req (finish t (pe_of p src) n (kind_of p) 0 (ws (mrun r n stop sched)))
      (fst (finish_seq t (flat_map (trace p) src) src p)).
Proof. intros Hd. apply finish_of_outcome. apply mrun_outcome; auto. Qed.

(** by-value iterator sources, ordered or first-come handle *)
Theorem exec_value_iter ordered sched :
  iall_done (imrun r n ordered stop sched) ->
  req (finish t (pe_of p src) n (kind_of p) 0 (map wk (iws (imrun r n ordered stop sched))))
      (fst (finish_seq t (flat_map (trace p) src) src p)).
Proof. intros Hd. apply finish_of_outcome. apply imrun_outcome; auto. Qed.

(** the macro-schedules of the deterministic scheduler *)
Theorem exec_value_macro sched :
  all_done (macro_run n (match r_input_len r with Some _ => true | None => false end) stop (@nopanic) r
                      (init (m_c0 r)) sched) ->
  req (finish t (pe_of p src) n (kind_of p) 0
              (ws (macro_run n (match r_input_len r with Some _ => true | None => false end) stop (@nopanic) r
                             (init (m_c0 r)) sched)))
      (fst (finish_seq t (flat_map (trace p) src) src p)).
Proof.
  rewrite macro_run_is_run. intros Hd. apply finish_of_outcome.
  exact (mrun_outcome r_wf n stop _ Hd).
Qed.

End RunSpec.

(** ** the class of inputs on which the bag path fails (known finding C01): the source was a
    concurrent iterator advanced by [k >= 1] elements and something is left.  For every such run,
    whatever the workers did, the first slot of the bag is never written and the unwrap panics. *)
Section Advanced.
Variable pe : nat -> list (event Z).

Lemma lookup_below (l : list (nat * Z)) i : (forall x, In x l -> i < fst x) -> lookup l i = [].
Proof.
  induction l as [|[j v] r IH]; intros H; [reflexivity|]. cbn [lookup].
  pose proof (H (j, v) (or_introl eq_refl)) as Hj. cbn [fst] in Hj.
  destruct (Nat.eqb_spec j i); [lia|]. apply IH. intros x Hx. apply H. right. exact Hx.
Qed.

Theorem advanced_bag_panics k old n wl : 0 < k -> 0 < n -> res_map_col_adv pe k old n wl = None.
Proof.
  intros Hk Hn. unfold res_map_col_adv.
  destruct (length (flat_map (w_writes pe (length old + k)) wl) =? n); [|reflexivity].
  destruct n as [|n']; [lia|]. cbn [read_bag].
  rewrite lookup_below; [reflexivity|].
  intros x Hx. apply in_flat_map in Hx. destruct Hx as (w & _ & Hx).
  unfold w_writes in Hx. apply in_flat_map in Hx. destruct Hx as (i & _ & Hx).
  apply in_map_iff in Hx. destruct Hx as (v & <- & _). cbn [fst]. lia.
Qed.

(** consequently [finish] of a map-only ordered collect over such a source is a panic *)
Corollary advanced_map_collect_panics k n wl : 0 < k -> 0 < n ->
  finish TCollectVec pe n KMap k wl = RPanic /\ finish TCollectSplit pe n KMap k wl = RPanic /\
  forall tg old, finish (TCollectInto tg old) pe n KMap k wl = RPanic.
Proof.
  intros Hk Hn. cbn [finish]. rewrite !advanced_bag_panics; auto.
  repeat split. intros tg old. rewrite advanced_bag_panics; auto.
Qed.
End Advanced.

(** ** the extracted function itself: [exec c] in its parallel branch over an indexed source *)
Definition c_st (c : case) : pstate Z :=
  let st0 := build (skipn (c_pre c) (c_input c)) (to_ops 0 (c_ops c)) in
  match c_term c with
  | TForEach => apply_stage st0 (SMap (length (c_ops c)) (fun x => x))
  | _ => st0
  end.
Definition c_p (c : case) : par Z := term_par (ps_par (c_st c)) (c_term c) (length (c_ops c)).
(** the value of the sequential branch for the same computation *)
Definition c_seqval (c : case) : result :=
  fst (finish_seq (c_term c) (flat_map (trace (c_p c)) (ps_src (c_st c))) (ps_src (c_st c)) (c_p c)).

Lemma complete_is_run len known stop panics r rounds : forall s,
  exists extra, complete len known stop panics r rounds s
                = run len known stop panics (m_dospawn r) (m_nextc r) s extra.
Proof.
  induction rounds as [|n IH]; intros s; cbn [complete]; [exists []; reflexivity|].
  destruct (all_doneb s); [exists []; reflexivity|].
  destruct (IH (run len known stop panics (m_dospawn r) (m_nextc r) s (seq 0 (S (length (ws s)))))) as [e He].
  exists (seq 0 (S (length (ws s))) ++ e). rewrite He. unfold Machine.run. rewrite fold_left_app. reflexivity.
Qed.

Lemma run_app len known stop panics ds nc s a b :
  run len known stop panics ds nc (run len known stop panics ds nc s a) b
  = run len known stop panics ds nc s (a ++ b).
Proof. unfold Machine.run. rewrite fold_left_app. reflexivity. Qed.

Lemma runner_new_len params task len avail r :
  runner_new params task len avail = Some r -> r_input_len r = len.
Proof.
  unfold runner_new. destruct (calc_chunk_size _ _ _ _); cbn [obind]; [|discriminate].
  intros [= <-]. reflexivity.
Qed.

Lemma shift_res_0 r : shift_res 0 r = r.
Proof. destruct r as [| | | |[[i v]|]| | |]; reflexivity. Qed.

Theorem exec_value (c : case) :
  c_panic c = None -> c_pre c = 0 -> c_macro c = false -> c_iter c = false ->
  (forall task len r, runner_new (ps_params (c_st c)) task len (c_avail c) = Some r -> runner_wf r) ->
  (kind_of (c_p c) = KMap -> forall x, length (yields (trace (c_p c) x)) = 1) ->
  (forall f, red_family (c_term c) = Some f ->
     (forall a b c0, f (f a b) c0 = f a (f b c0)) /\ (forall a b, f a b = f b a)) ->
  o_sequential (exec c) = false -> o_complete (exec c) = true -> o_result (exec c) <> RPanic ->
  req (o_result (exec c)) (c_seqval c).
Proof.
  intros Hpanic Hpre Hmacro Hiter Hwf Hone Hop.
  unfold exec, exec0, c_seqval, c_p, c_st in *.
  rewrite Hpanic, Hpre, Hmacro, Hiter in *. cbn [hits andb skipn] in *.
  set (st0 := build (c_input c) (to_ops 0 (c_ops c))) in *.
  set (st := match c_term c with
             | TForEach => apply_stage st0 (SMap (length (c_ops c)) (fun x => x))
             | _ => st0
             end) in *.
  set (p := term_par (ps_par st) (c_term c) (length (c_ops c))) in *.
  destruct (is_sequential (ps_params st) || empty_collect (kind_of (ps_par st)) (c_term c)) eqn:Eseq.
  - (* sequential branch: excluded *)
    destruct (finish_seq (c_term c) (flat_map (trace p) (ps_src st)) (ps_src st) p). cbn. discriminate.
  - set (il := if c_known c || (0 <? ps_runs st)%nat || (ordered_of (c_term c) && (length (c_input c) <? 0)%nat)
               then Some (N.of_nat (length (ps_src st))) else None) in *.
    destruct (runner_new (ps_params st) (kernel_task (kind_of (ps_par st)) (c_term c)) il (c_avail c)) as [r|] eqn:Er;
      [|cbn; intros _ _ H; congruence].
    pose proof (Hwf _ _ _ Er) as Hr. pose proof (runner_new_len _ _ _ _ Er) as Hlen.
    destruct (complete_is_run (length (ps_src st)) (match il with Some _ => true | None => false end)
                (if is_find (c_term c) then stop_of p (ps_src st) else fun _ => false)
                (fun _ : nat => false) r (c_fuel c)
                (run (length (ps_src st)) (match il with Some _ => true | None => false end)
                     (if is_find (c_term c) then stop_of p (ps_src st) else fun _ => false)
                     (fun _ : nat => false) (m_dospawn r) (m_nextc r) (init (m_c0 r)) (c_sched c))) as [extra He].
    cbn [fst snd o_result o_sequential o_complete] in *.
    rewrite He, run_app.
    set (s := run _ _ _ _ _ _ _ (c_sched c ++ extra)).
    intros _ Hdone Hres.
    destruct (any_dead s); [rewrite Hdone in Hres; cbn in Hres; congruence|].
    rewrite Hdone. cbn [andb negb]. rewrite shift_res_0.
    replace (if (ps_runs st =? 0)%nat then Nat.min 0 (length (c_input c)) else 0%nat) with 0%nat
      by (destruct (ps_runs st =? 0)%nat; reflexivity).
    assert (Es : s = mrun r (length (ps_src st))
                          (if is_find (c_term c) then stop_of p (ps_src st) else @nostop) (c_sched c ++ extra)).
    { unfold s, mrun, mrunp. rewrite Hlen. reflexivity. }
    rewrite Es. apply exec_value_indexed; auto.
    rewrite <- Es. apply all_doneb_spec. exact Hdone.
Qed.

(** the same for a by-value iterator source (no eager site, micro-schedule) *)
Lemma icomplete_is_irun len known ordered stop panics r rounds : forall s,
  exists extra, icomplete len known ordered stop panics r rounds s
                = irun len known ordered stop panics (m_dospawn r) (m_nextc r) s extra.
Proof.
  induction rounds as [|n IH]; intros s; cbn [icomplete]; [exists []; reflexivity|].
  destruct (iall_doneb s); [exists []; reflexivity|].
  destruct (IH (irun len known ordered stop panics (m_dospawn r) (m_nextc r) s (seq 0 (S (length (iws s)))))) as [e He].
  exists (seq 0 (S (length (iws s))) ++ e). rewrite He. unfold MachineIter.irun. rewrite fold_left_app. reflexivity.
Qed.

Lemma irun_app len known ordered stop panics ds nc s a b :
  irun len known ordered stop panics ds nc (irun len known ordered stop panics ds nc s a) b
  = irun len known ordered stop panics ds nc s (a ++ b).
Proof. unfold MachineIter.irun. rewrite fold_left_app. reflexivity. Qed.

Theorem exec_value_iter_case (c : case) :
  c_panic c = None -> c_pre c = 0 -> c_macro c = false -> c_iter c = true ->
  ps_runs (c_st c) = 0 ->
  (forall task len r, runner_new (ps_params (c_st c)) task len (c_avail c) = Some r -> runner_wf r) ->
  (kind_of (c_p c) = KMap -> forall x, length (yields (trace (c_p c) x)) = 1) ->
  (forall f, red_family (c_term c) = Some f ->
     (forall a b c0, f (f a b) c0 = f a (f b c0)) /\ (forall a b, f a b = f b a)) ->
  o_sequential (exec c) = false -> o_complete (exec c) = true -> o_result (exec c) <> RPanic ->
  req (o_result (exec c)) (c_seqval c).
Proof.
  intros Hpanic Hpre Hmacro Hiter Hruns Hwf Hone Hop.
  unfold exec, exec0, c_seqval, c_p, c_st in *.
  rewrite Hpanic, Hpre, Hmacro, Hiter in *. cbn [hits andb skipn] in *.
  set (st0 := build (c_input c) (to_ops 0 (c_ops c))) in *.
  set (st := match c_term c with
             | TForEach => apply_stage st0 (SMap (length (c_ops c)) (fun x => x))
             | _ => st0
             end) in *.
  set (p := term_par (ps_par st) (c_term c) (length (c_ops c))) in *.
  rewrite Hruns in *. cbn [Nat.eqb Nat.ltb Nat.leb orb] in *.
  destruct (is_sequential (ps_params st) || empty_collect (kind_of (ps_par st)) (c_term c)) eqn:Eseq.
  - destruct (finish_seq (c_term c) (flat_map (trace p) (ps_src st)) (ps_src st) p). cbn. discriminate.
  - set (il := if c_known c || false || ordered_of (c_term c) && false
               then Some (N.of_nat (length (ps_src st))) else None) in *.
    destruct (runner_new (ps_params st) (kernel_task (kind_of (ps_par st)) (c_term c)) il (c_avail c)) as [r|] eqn:Er;
      [|cbn; intros _ _ H; congruence].
    pose proof (Hwf _ _ _ Er) as Hr. pose proof (runner_new_len _ _ _ _ Er) as Hlen.
    destruct (icomplete_is_irun (length (ps_src st)) (match il with Some _ => true | None => false end)
                (ordered_of (c_term c))
                (if is_find (c_term c) then stop_of p (ps_src st) else fun _ => false)
                (fun _ : nat => false) r (c_fuel c)
                (irun (length (ps_src st)) (match il with Some _ => true | None => false end)
                      (ordered_of (c_term c))
                      (if is_find (c_term c) then stop_of p (ps_src st) else fun _ => false)
                      (fun _ : nat => false) (m_dospawn r) (m_nextc r) (iinit (m_c0 r)) (c_sched c))) as [extra He].
    cbn [fst snd o_result o_sequential o_complete] in *.
    rewrite He, irun_app.
    set (s := irun _ _ _ _ _ _ _ _ (c_sched c ++ extra)).
    intros _ Hdone Hres.
    destruct (iany_dead s); [rewrite Hdone in Hres; cbn in Hres; congruence|].
    rewrite Hdone. cbn [andb negb]. rewrite shift_res_0.
    replace (Nat.min 0 (length (c_input c))) with 0%nat by reflexivity.
    assert (Es : s = imrun r (length (ps_src st)) (ordered_of (c_term c))
                           (if is_find (c_term c) then stop_of p (ps_src st) else @nostop) (c_sched c ++ extra)).
    { unfold s, imrun, imrunp. rewrite Hlen. reflexivity. }
    rewrite Es. apply exec_value_iter; auto.
    rewrite <- Es. apply iall_doneb_spec. exact Hdone.
Qed.
