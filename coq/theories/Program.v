(** Program: a whole computation = source + operations + terminal, executed by the runner
    machine under a schedule, with the settings arithmetic of [Settings.v] deciding spawns and
    chunk sizes.  This is the executable model that is extracted and run against the crate. *)
From OrxPar Require Import Base Settings SettingsP Spec Pipeline PipelineP Machine MachineP Termination Kernels KernelsP Own.
Set Implicit Arguments.

(** ** the runner's decisions, as the machine consumes them *)
Definition hm_N (h : option nat) : HasMore := option_map N.of_nat h.

Definition m_dospawn (r : Runner) (n : nat) (h : option nat) : bool :=
  match do_spawn r (N.of_nat n) (hm_N h) with Some b => b | None => false end.

Definition m_nextc (r : Runner) (n : nat) (h : option nat) : option nat :=
  match next_chunk_size r (N.of_nat n) (hm_N h) with
  | Some (Some c) => Some (N.to_nat c)
  | _ => None
  end.

Definition m_maxt (r : Runner) : nat := N.to_nat (r_max_threads r).
Definition m_c0 (r : Runner) : nat := N.to_nat (r_inner (r_chunk r)).

Local Open Scope N_scope.

Lemma next_chunk_size_pos r ns h c : runner_wf r ->
  next_chunk_size r ns h = Some (Some c) -> 1 <= c.
Proof.
  intros (H1 & Hc & _). unfold next_chunk_size, next_chunk_size_unknown_len, next_chunk_size_known_len.
  destruct h as [[|rem]|]; [discriminate| |].
  - destruct (csub (r_max_threads r) 1) as [m1|]; cbn [obind]; [|discriminate].
    destruct (m1 <=? ns); [discriminate|].
    destruct (r_chunk r) as [x|x]; cbn [r_inner] in *.
    + destruct (ns =? 0); [intros [= <-]; lia|].
      destruct (csub _ _) as [d|]; cbn [obind]; [|discriminate].
      destruct (cdiv d ns) as [dpt|]; cbn [obind]; [|discriminate].
      destruct (cdiv dpt x) as [q|]; cbn [obind]; [|discriminate].
      unfold cmul. destruct (_ <=? usize_max); cbn [obind]; [|discriminate].
      intros [= <-]. nia.
    + intros [= <-]. lia.
  - destruct (csub (r_max_threads r) 1) as [m1|]; cbn [obind]; [|discriminate].
    destruct (m1 <=? ns); [discriminate|]. intros [= <-]. lia.
Qed.

Local Close Scope N_scope.

Lemma m_dospawn_bound r n h : runner_wf r -> m_dospawn r n h = true -> n + 2 <= m_maxt r.
Proof.
  intros Hw. unfold m_dospawn, m_maxt.
  destruct (do_spawn r (N.of_nat n) (hm_N h)) as [b|] eqn:E; [|discriminate].
  intros ->. apply (do_spawn_true_bound _ _ _ Hw) in E. lia.
Qed.

Lemma m_nextc_pos r n h c : runner_wf r -> m_nextc r n h = Some c -> 0 < c.
Proof.
  intros Hw. unfold m_nextc.
  destruct (next_chunk_size r (N.of_nat n) (hm_N h)) as [[c'|]|] eqn:E; try discriminate.
  intros [= <-]. eapply next_chunk_size_pos in E; [|exact Hw]. lia.
Qed.

Lemma m_maxt_pos r : runner_wf r -> 1 <= m_maxt r.
Proof. intros (H1 & _). unfold m_maxt. lia. Qed.

Lemma m_c0_pos r : runner_wf r -> 0 < m_c0 r.
Proof. intros (_ & H & _). unfold m_c0. lia. Qed.

(** ** per-position traces of a built computation *)
Section Prog.
Variable V : Type.

Definition pe_of (p : par V) (src : list V) (i : nat) : list (event V) :=
  match nth_error src i with Some x => trace p x | None => [] end.

Lemma flat_map_positions {B} (F : list (event V) -> list B) (p : par V) (src : list V) :
  flat_map (fun i => F (pe_of p src i)) (seq 0 (length src)) = flat_map (fun x => F (trace p x)) src.
Proof.
  unfold pe_of.
  assert (H : forall (pre : list V), flat_map (fun i => F (match nth_error (pre ++ src) i with
                                                   | Some x => trace p x | None => [] end))
                               (seq (length pre) (length src))
                      = flat_map (fun x => F (trace p x)) src).
  { induction src as [|x r IH]; intros pre; [reflexivity|].
    cbn [length seq flat_map]. rewrite nth_error_app2 by lia. rewrite Nat.sub_diag. cbn [nth_error].
    f_equal. specialize (IH (pre ++ [x])). rewrite app_length in IH. cbn [length] in IH.
    rewrite Nat.add_1_r in IH. rewrite <- app_assoc in IH. exact IH. }
  exact (H []).
Qed.

Lemma vals_positions (p : par V) (src : list V) :
  flat_map (vals (pe_of p src)) (seq 0 (length src)) = yields (flat_map (trace p) src).
Proof.
  unfold vals. rewrite (flat_map_positions (@yields V)). now rewrite yields_flat_map.
Qed.

Lemma calls_positions (p : par V) (src : list V) :
  flat_map (fun i => calls (pe_of p src i)) (seq 0 (length src)) = calls (flat_map (trace p) src).
Proof. rewrite (flat_map_positions (@calls V)). now rewrite calls_flat_map. Qed.

(** whether processing position [i] makes a short-circuit kernel stop *)
Definition stop_of (p : par V) (src : list V) (i : nat) : bool :=
  match first_yield (pe_of p src i) with Some _ => true | None => false end.
Definition nostop : nat -> bool := fun _ => false.

End Prog.

(** ** running the machine for a built computation *)
Section Run.
Variable V : Type.
Variable r : Runner.                     (* the resolved settings *)
Hypothesis r_wf : runner_wf r.

Definition nopanic : nat -> bool := fun _ => false.

(** the general run: [panics i] = the chain's closures panic on source position [i] *)
Definition mrunp (len : nat) (stop panics : nat -> bool) (sched : list nat) : sys :=
  run len (match r_input_len r with Some _ => true | None => false end) stop panics
      (m_dospawn r) (m_nextc r) (init (m_c0 r)) sched.
Definition mrun (len : nat) (stop : nat -> bool) (sched : list nat) : sys :=
  mrunp len stop nopanic sched.

Theorem mrunp_GInv len stop panics sched : GInv len stop panics (m_maxt r) (mrunp len stop panics sched).
Proof.
  assert (H1 : forall n h, m_dospawn r n h = true -> n + 2 <= m_maxt r)
    by (intros n h; apply m_dospawn_bound; exact r_wf).
  assert (H2 : forall n h c, m_nextc r n h = Some c -> 0 < c)
    by (intros n h c; apply m_nextc_pos; exact r_wf).
  pose proof (m_maxt_pos r_wf) as H3. pose proof (m_c0_pos r_wf) as H4.
  apply run_GInv; auto. apply init_GInv; auto.
Qed.

Theorem mrun_GInv len stop sched : GInv len stop nopanic (m_maxt r) (mrun len stop sched).
Proof. apply mrunp_GInv. Qed.

Theorem mrun_outcome len stop sched :
  all_done (mrun len stop sched) -> Outcome len stop (ws (mrun len stop sched)).
Proof.
  intros Hd.
  exact (final_outcome (m_maxt_pos r_wf) (mrun_GInv len stop sched) Hd (fun _ => eq_refl)).
Qed.

(** C08 (machine level): never more workers than [max_num_threads] *)
Theorem mrun_threads len stop sched : length (ws (mrun len stop sched)) <= m_maxt r.
Proof.
  pose proof (G_sp (mrun_GInv len stop sched)) as H.
  destruct (sph (mrun len stop sched)); lia.
Qed.


(** ** termination (C10): no reachable state is stuck and a fair continuation completes *)
Let known := match r_input_len r with Some _ => true | None => false end.

Lemma spawner_hyps :
  (forall n h, m_dospawn r n h = true -> n + 2 <= m_maxt r) /\
  (forall n h c, m_nextc r n h = Some c -> 0 < c) /\ 1 <= m_maxt r /\ 0 < m_c0 r.
Proof.
  repeat split.
  - intros n h. apply m_dospawn_bound. exact r_wf.
  - intros n h c. apply m_nextc_pos. exact r_wf.
  - apply m_maxt_pos. exact r_wf.
  - apply m_c0_pos. exact r_wf.
Qed.

Theorem mrunp_SInv len stop panics sched : SInv len (mrunp len stop panics sched).
Proof. apply (@run_SInv len known stop panics (m_dospawn r) (m_nextc r) (m_maxt r) (m_maxt_pos r_wf)). apply init_SInv. Qed.
Theorem mrun_SInv len stop sched : SInv len (mrun len stop sched).
Proof. apply mrunp_SInv. Qed.

(** after any schedule prefix, [phi] rounds of round robin complete the run *)
Theorem mrunp_completes len stop panics sched :
  all_done (mrunp len stop panics
              (sched ++ round_robin (m_maxt r) (phi len (m_maxt r) (mrunp len stop panics sched)))).
Proof.
  destruct spawner_hyps as (H1 & H2 & H3 & H4).
  unfold mrunp, Machine.run. rewrite fold_left_app.
  apply all_doneb_spec.
  apply (@rr_completes len known stop panics (m_dospawn r) (m_nextc r) (m_maxt r) H1 H2 H3); auto.
  - apply mrunp_GInv.
  - apply mrunp_SInv.
Qed.

Theorem mrun_completes len stop sched :
  all_done (mrun len stop (sched ++ round_robin (m_maxt r) (phi len (m_maxt r) (mrun len stop sched)))).
Proof. apply mrunp_completes. Qed.

(** no schedule contains more than [phi(init)] effective steps *)
Theorem mrun_effective_bounded len stop panics sched :
  effective len known stop panics (m_dospawn r) (m_nextc r) (init (m_c0 r)) sched
  <= 5 * m_maxt r + 2 + 4 * len.
Proof.
  destruct spawner_hyps as (H1 & H2 & H3 & H4).
  pose proof (@effective_bounded len known stop panics (m_dospawn r) (m_nextc r) (m_maxt r) H1 H2 H3
                (init (m_c0 r)) sched) as B.
  assert (G0 : GInv len stop panics (m_maxt r) (init (m_c0 r))) by (apply init_GInv; auto).
  specialize (B G0 (init_SInv len (m_c0 r))).
  assert (E : phi len (m_maxt r) (init (m_c0 r)) = 5 * m_maxt r + 2 + 4 * len).
  { unfold phi, rem. cbn. lia. }
  lia.
Qed.

(** once the early-exit signal is out, the rest of the run takes a number of effective steps
    that depends on the thread bound and the chunk sizes only -- not on the remaining input *)
Theorem mrun_after_signal len stop panics sched sched2 :
  skipped (mrunp len stop panics sched) = true ->
  effective len known stop panics (m_dospawn r) (m_nextc r) (mrunp len stop panics sched) sched2
  <= 5 * m_maxt r + 3 + sum_list (map (fun w => 2 * csize w + 3) (ws (mrunp len stop panics sched))).
Proof.
  intros Hsk. destruct spawner_hyps as (H1 & H2 & H3 & H4).
  pose proof (@effective_bounded len known stop panics (m_dospawn r) (m_nextc r) (m_maxt r) H1 H2 H3
                (mrunp len stop panics sched) sched2 (mrunp_GInv len stop panics sched)
                (mrunp_SInv len stop panics sched)) as B.
  pose proof (phi_after_signal H3 (mrunp_SInv len stop panics sched) Hsk) as P.
  lia.
Qed.


(** ** ownership of an owning source (C13 / C14) *)
Theorem mrunp_source_accounting len stop panics sched :
  all_done (mrunp len stop panics sched) ->
  Permutation (moved_out (mrunp len stop panics sched)
               ++ skip_drops len known stop panics (m_dospawn r) (m_nextc r) (init (m_c0 r)) sched
               ++ final_drop len (mrunp len stop panics sched))
              (seq 0 len).
Proof.
  intros Hd. destruct spawner_hyps as (H1 & H2 & H3 & H4).
  apply (@source_accounting len known stop panics (m_dospawn r) (m_nextc r) (m_maxt r) H1 H2 H3 (m_c0 r) sched H4 Hd).
Qed.

Theorem mrunp_panic_propagates len stop panics sched w i :
  In w (ws (mrunp len stop panics sched)) -> In i (seen w) -> panics i = true -> ph w = Dead.
Proof. intros Hw Hi Hp. eapply panic_dead; eauto. apply mrunp_GInv. Qed.

End Run.
