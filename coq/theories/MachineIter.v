(** MachineIter: the runner over a by-value iterator source -- [ConIterOfIter] (tickets, handed
    out by one [fetch_add], are served in order: what the index-reporting kernels use) and
    [ConIterOfIterX] (the handle is first come, first served: what count / reduce / collect_x
    use after [into_con_iter_x]) of orx-concurrent-iter.

    The protocol state is [gate]: [Open n] = the next reader must hold ticket [n] (ordered) or
    may be anybody (unordered); [Busy] = somebody is inside the user's iterator; [Closed] = the
    source is exhausted or [skip_to_end] stored COMPLETED.  One micro-step per atomic action and
    per call of the user iterator's [next()]. *)
From OrxPar Require Import Base Machine.
Set Implicit Arguments.

Inductive gate := Open (n : nat) | Busy | Closed.

Inductive iphase :=
| IReady | ITicket (t : nat) | IReading (t got : nat) | IHolding (b k : nat) | IFound | IDone | IDead.

Record iworker := mkIW {
  icsize : nat; iph : iphase; iseen : list nat; iaband : list nat; ipulls : list (nat * nat)
}.

Record isys := mkIS {
  ictr : nat;                  (* ticket counter *)
  igate : gate;                (* yielded_counter / is_mutating *)
  ifront : nat;                (* ghost: elements the user iterator has yielded *)
  iskipped : bool;             (* ghost *)
  iws : list iworker;
  isph : sphase;
  icur : nat
}.

(** the worker as the kernels see it *)
Definition conv (p : iphase) : phase :=
  match p with
  | IReady | ITicket _ => Ready
  | IReading t got => Holding t got
  | IHolding b k => Holding b k
  | IFound => Found | IDone => Done | IDead => Dead
  end.
Definition wk (w : iworker) : worker := mkW (icsize w) (conv (iph w)) (iseen w) (iaband w) (ipulls w).

Section MachineIter.
Variable srclen : nat.               (* what the user iterator yields before [None]; unknown to the code *)
Variable known : bool.               (* exact size hint *)
Variable ordered : bool.             (* ConIterOfIter (true) or ConIterOfIterX (false) *)
Variable stop : nat -> bool.
Variable panics : nat -> bool.
Variable dospawn : nat -> option nat -> bool.
Variable nextc : nat -> option nat -> option nat.

Definition ifresh (c : nat) : iworker := mkIW c IReady [] [] [].

(** [try_get_len]: 0 once completed, else initial_len - counter when the length is known *)
Definition ihas_more (s : isys) : option nat :=
  match igate s with
  | Closed => Some 0
  | _ => if known then Some (srclen - ictr s) else None
  end.

Definition ispawn (s : isys) (ph' : sphase) : isys :=
  mkIS (ictr s) (igate s) (ifront s) (iskipped s) (iws s ++ [ifresh (icur s)]) ph' (icur s).
Definition iset_sph (s : isys) (ph' : sphase) : isys :=
  mkIS (ictr s) (igate s) (ifront s) (iskipped s) (iws s) ph' (icur s).

Definition isstep (s : isys) : isys :=
  match isph s with
  | SpLoop j =>
      if dospawn (length (iws s)) (ihas_more s)
      then ispawn s (match j with S (S j') => SpLoop (S j') | _ => SpLag end)
      else iset_sph s SpFinal
  | SpLag =>
      match nextc (length (iws s)) (ihas_more s) with
      | None => iset_sph s SpFinal
      | Some c => mkIS (ictr s) (igate s) (ifront s) (iskipped s) (iws s) (SpLoop LAG_PERIODICITY) c
      end
  | SpFinal => ispawn s SpDone
  | SpDone => s
  end.

Definition setph (w : iworker) (p : iphase) : iworker :=
  mkIW (icsize w) p (iseen w) (iaband w) (ipulls w).

(** one micro-step of a worker: (counter, gate, frontier, skip flag, worker) *)
Definition iwstep (c : nat) (g : gate) (f : nat) (sk : bool) (w : iworker)
  : nat * gate * nat * bool * iworker :=
  match iph w with
  | IReady => (c + icsize w, g, f, sk, setph w (ITicket c))          (* fetch_add *)
  | ITicket t =>                                                      (* try_get_handle *)
      match g with
      | Open n =>
          if ordered
          then (if n =? t then (c, Busy, f, sk, setph w (IReading t 0)) else (c, g, f, sk, w))
          else (c, Busy, f, sk, setph w (IReading f 0))
      | Busy => (c, g, f, sk, w)                                      (* spin *)
      | Closed => (c, g, f, sk, setph w IDone)                        (* the pull returns None *)
      end
  | IReading t got =>
      if (got <? icsize w) && (f <? srclen)
      then (c, g, S f, sk, setph w (IReading t (S got)))              (* one next() = Some *)
      else
        let g' := match g with
                  | Busy => if got =? icsize w then Open (t + icsize w) else Closed
                  | o => o                                            (* COMPLETED was stored meanwhile *)
                  end in
        (c, g', f, sk, mkIW (icsize w) (IHolding t got) (iseen w) (iaband w) (ipulls w ++ [(t, got)]))
  | IHolding b 0 => (c, g, f, sk, setph w IReady)
  | IHolding b (S k) =>
      if panics b
      then (c, g, f, sk, mkIW (icsize w) IDead (iseen w ++ [b]) (seq (S b) k ++ iaband w) (ipulls w))
      else if stop b
      then (c, g, f, sk, mkIW (icsize w) IFound (iseen w ++ [b]) (seq (S b) k ++ iaband w) (ipulls w))
      else match k with
           | 0 => (c, g, f, sk, mkIW (icsize w) IReady (iseen w ++ [b]) (iaband w) (ipulls w))
           | _ => (c, g, f, sk, mkIW (icsize w) (IHolding (S b) k) (iseen w ++ [b]) (iaband w) (ipulls w))
           end
  | IFound => (c, Closed, f, true, setph w IDone)                     (* skip_to_end: store COMPLETED *)
  | IDone => (c, g, f, sk, w)
  | IDead => (c, g, f, sk, w)
  end.

Definition istep (s : isys) (t : nat) : isys :=
  match t with
  | 0 => isstep s
  | S i =>
      match nth_error (iws s) i with
      | None => s
      | Some w =>
          let '(c, g, f, sk, w') := iwstep (ictr s) (igate s) (ifront s) (iskipped s) w in
          mkIS c g f sk (upd (iws s) i w') (isph s) (icur s)
      end
  end.

Definition irun (s : isys) (sched : list nat) : isys := fold_left istep sched s.
Definition iinit (c0 : nat) : isys := mkIS 0 (Open 0) 0 false [] (SpLoop LAG_PERIODICITY) c0.

Definition ifinished (w : iworker) : Prop := iph w = IDone \/ iph w = IDead.
Definition iall_done (s : isys) : Prop := isph s = SpDone /\ forall w, In w (iws s) -> ifinished w.
Definition iall_doneb (s : isys) : bool :=
  match isph s with
  | SpDone => forallb (fun w => match iph w with IDone | IDead => true | _ => false end) (iws s)
  | _ => false
  end.

(** a worker is inside the user's iterator *)
Definition is_reading (w : iworker) : bool := match iph w with IReading _ _ => true | _ => false end.
Definition readers (l : list iworker) : nat := length (filter is_reading l).

End MachineIter.
