(** ExactChunksIter (C11 over by-value iterator sources): with [ChunkSize::Exact(c)] every pull
    from a [ConIterOfIter] / [ConIterOfIterX] starts at a multiple of [c] and takes [c] elements,
    fewer only when the user's iterator is exhausted by that very pull -- for every worker, in
    every reachable state of every schedule, with the ordered and with the first-come handle. *)
From OrxPar Require Import Base Settings SettingsP Machine MachineP MachineIter MachineIterP Program ExactChunks
  Kernels KernelsP Master MasterIter.
Set Implicit Arguments.

Section ExactIter.
Variable srclen : nat.
Variable known : bool.
Variable ordered : bool.
Variable stop : nat -> bool.
Variable panics : nat -> bool.
Variable dospawn : nat -> option nat -> bool.
Variable nextc : nat -> option nat -> option nat.
Variable maxt : nat.
Variable c : nat.

Hypothesis dospawn_bound : forall n h, dospawn n h = true -> n + 2 <= maxt.
Hypothesis nextc_pos : forall n h x, nextc n h = Some x -> 0 < x.
Hypothesis maxt_pos : 1 <= maxt.
Hypothesis nextc_c : forall n h x, nextc n h = Some x -> x = c.

Notation iwstep := (iwstep srclen ordered stop panics).
Notation istep := (istep srclen known ordered stop panics dospawn nextc).
Notation irun := (irun srclen known ordered stop panics dospawn nextc).
Notation IGInv := (IGInv srclen stop panics maxt).
Notation Split := (Split srclen stop panics).

Definition mult (x : nat) : Prop := exists q, x = q * c.

(** what [Exact(c)] promises about one worker *)
Record EW (w : iworker) : Prop := {
  EW_cs : icsize w = c;
  EW_tk : forall t, iph w = ITicket t -> ordered = true -> mult t;
  EW_rd : forall t got, iph w = IReading t got -> mult t;
  EW_pl : Forall (fun p => mult (fst p) /\ (snd p = c \/ fst p + snd p = srclen) /\ snd p <= c) (ipulls w)
}.

Record EI (s : isys) : Prop := {
  EI_cur : icur s = c;
  EI_ctr : mult (ictr s);
  EI_open : forall n, igate s = Open n -> mult (ifront s);
  EI_w : Forall EW (iws s)
}.

Lemma mult_add x : mult x -> mult (x + c).
Proof. intros [q ->]. exists (S q). cbn. lia. Qed.

Lemma iwstep_EW ct g f sk l1 w l2 ct' g' f' sk' w' :
  iwstep ct g f sk w = (ct', g', f', sk', w') ->
  Split g f sk l1 w l2 ->
  mult ct -> (forall n, g = Open n -> mult f) -> EW w ->
  mult ct' /\ (forall n, g' = Open n -> mult f') /\ EW w'.
Proof.
  intros Hs HS Hct Hop [Hcs Htk Hrdm Hpl].
  pose proof (S_rdw HS) as Hrd. pose proof (S_open HS) as Hopen. pose proof (S_front HS) as Hfr.
  unfold MachineIter.iwstep in Hs.
  destruct w as [cs p sn ab pl]; cbn [iph icsize iseen iaband ipulls setph] in *. subst cs.
  destruct p as [|t|t got|b k| | |].
  - (* ticket *)
    injection Hs as <- <- <- <- <-. split; [apply mult_add; exact Hct|]. split; [exact Hop|].
    constructor; cbn [iph icsize ipulls setph]; auto; try discriminate.
    intros t [= <-] _. exact Hct.
  - destruct g as [n| |].
    + destruct ordered eqn:Eo.
      * destruct (n =? t) eqn:Ent.
        -- injection Hs as <- <- <- <- <-. split; [exact Hct|]. split; [discriminate|].
           constructor; cbn [iph icsize ipulls setph]; auto; try discriminate.
           intros t0 got [= <- <-]. apply (Htk t eq_refl eq_refl).
        -- injection Hs as <- <- <- <- <-. split; [exact Hct|]. split; [exact Hop|].
           constructor; cbn [iph icsize ipulls]; auto.
      * injection Hs as <- <- <- <- <-. split; [exact Hct|]. split; [discriminate|].
        constructor; cbn [iph icsize ipulls setph]; auto; try discriminate.
        intros t0 got [= <- <-]. apply (Hop n eq_refl).
    + injection Hs as <- <- <- <- <-. split; [exact Hct|]. split; [discriminate|].
      constructor; cbn [iph icsize ipulls]; auto.
    + injection Hs as <- <- <- <- <-. split; [exact Hct|]. split; [discriminate|].
      constructor; cbn [iph icsize ipulls setph]; auto; discriminate.
  - (* reading *)
    destruct (Hrd t got eq_refl) as [Hf Hgot]. cbn [icsize] in Hgot.
    pose proof (Hrdm t got eq_refl) as Hmt.
    destruct ((got <? c) && (f <? srclen)) eqn:Eb.
    + injection Hs as <- <- <- <- <-. split; [exact Hct|]. split.
      * intros n E. destruct (Hopen n E) as [_ Hr]. cbn in Hr. lia.
      * constructor; cbn [iph icsize ipulls setph]; auto; try discriminate.
        intros t0 g0 [= <- <-]. exact Hmt.
    + assert (Hk : got = c \/ t + got = srclen).
      { apply andb_false_iff in Eb. destruct Eb as [Eb|Eb].
        - apply Nat.ltb_ge in Eb. left. lia.
        - apply Nat.ltb_ge in Eb. right. lia. }
      injection Hs as <- <- <- <- <-. split; [exact Hct|]. split.
      * intros n E. destruct g as [n0| |].
        -- destruct (Hopen n0 eq_refl) as [_ Hr]. cbn in Hr. lia.
        -- destruct (got =? c) eqn:Eg; [|discriminate]. apply Nat.eqb_eq in Eg.
           subst f got. apply mult_add. exact Hmt.
        -- discriminate.
      * constructor; cbn [iph icsize ipulls]; auto; try discriminate.
        apply Forall_app. split; [exact Hpl|]. constructor; [|constructor]. cbn [fst snd]. auto.
  - (* holding *)
    destruct k as [|k].
    + injection Hs as <- <- <- <- <-. split; [exact Hct|]. split; [exact Hop|].
      constructor; cbn [iph icsize ipulls setph]; auto; discriminate.
    + destruct (panics b); [injection Hs as <- <- <- <- <-; split; [exact Hct|]; split; [exact Hop|];
                            constructor; cbn [iph icsize ipulls]; auto; discriminate|].
      destruct (stop b); [injection Hs as <- <- <- <- <-; split; [exact Hct|]; split; [exact Hop|];
                          constructor; cbn [iph icsize ipulls]; auto; discriminate|].
      destruct k; injection Hs as <- <- <- <- <-; (split; [exact Hct|]); (split; [exact Hop|]);
        constructor; cbn [iph icsize ipulls]; auto; discriminate.
  - injection Hs as <- <- <- <- <-. split; [exact Hct|]. split; [discriminate|].
    constructor; cbn [iph icsize ipulls setph]; auto; discriminate.
  - injection Hs as <- <- <- <- <-. split; [exact Hct|]. split; [exact Hop|].
    constructor; cbn [iph icsize ipulls]; auto.
  - injection Hs as <- <- <- <- <-. split; [exact Hct|]. split; [exact Hop|].
    constructor; cbn [iph icsize ipulls]; auto.
Qed.

Lemma istep_EI s t : IGInv s -> EI s -> EI (istep s t).
Proof.
  intros G [Hcur Hct Hop Hw]. destruct t as [|i].
  - unfold MachineIter.istep, MachineIter.isstep, ispawn, iset_sph.
    assert (Hf : Forall EW (iws s ++ [ifresh (icur s)])).
    { apply Forall_app. split; [exact Hw|]. constructor; [|constructor].
      constructor; cbn [ifresh iph icsize ipulls]; auto; discriminate. }
    destruct (isph s); [destruct (dospawn _ _)|destruct (nextc _ _) as [x|] eqn:En| |];
      constructor; cbn [icur iws ictr igate ifront]; auto.
    apply nextc_c in En. exact En.
  - unfold MachineIter.istep. destruct (nth_error (iws s) i) as [w|] eqn:En; [|constructor; auto].
    apply nth_error_split in En. destruct En as (l1 & l2 & El & Hi). subst i.
    destruct s as [ct g f sk l p cu]; cbn [ictr igate ifront iskipped iws isph icur] in *. subst l.
    destruct (iwstep ct g f sk w) as [[[[ct' g'] f'] sk'] w'] eqn:Ew.
    rewrite upd_split. apply IGInv_Split in G; auto. destruct G as (GS & _ & _).
    apply Forall_app in Hw. destruct Hw as [H1 H2]. inversion H2; subst.
    assert (HE : mult ct' /\ (forall n, g' = Open n -> mult f') /\ EW w') by (eapply iwstep_EW; eauto).
    destruct HE as (Hct' & Hop' & Hw').
    constructor; cbn [icur iws ictr igate ifront]; auto.
    apply Forall_app. split; auto.
Qed.

Lemma irun_EI s sched : IGInv s -> EI s -> EI (irun s sched).
Proof.
  revert s; induction sched as [|t r IH]; intros s G E; simpl; auto.
  apply IH; [apply istep_IGInv; auto|apply istep_EI; auto].
Qed.

Lemma iinit_EI : EI (iinit c).
Proof. constructor; cbn; auto; exists 0; reflexivity. Qed.

End ExactIter.

Section ExactIterRun.
Variable r : Runner.
Hypothesis r_wf : runner_wf r.
Variable x : N.
Hypothesis r_exact : r_chunk r = RExact x.

(** C11 over iterator sources: every pull of every worker in every reachable state *)
Theorem exact_pulls_iter srclen ordered stop panics sched w b k :
  In w (iws (imrunp r srclen ordered stop panics sched)) -> In (b, k) (ipulls w) ->
  icsize w = m_c0 r /\ (exists q, b = q * m_c0 r) /\ k <= m_c0 r /\ (k = m_c0 r \/ b + k = srclen).
Proof.
  intros Hw Hp.
  assert (H1 : forall n h, m_dospawn r n h = true -> n + 2 <= m_maxt r)
    by (intros n h; apply m_dospawn_bound; exact r_wf).
  assert (H2 : forall n h c, m_nextc r n h = Some c -> 0 < c)
    by (intros n h c; apply m_nextc_pos; exact r_wf).
  pose proof (m_maxt_pos r_wf) as H3. pose proof (m_c0_pos r_wf) as H4.
  assert (E : EI srclen ordered (m_c0 r) (imrunp r srclen ordered stop panics sched)).
  { unfold imrunp. eapply irun_EI; eauto.
    - intros n h c Hn. eapply m_nextc_exact; eauto.
    - apply iinit_IGInv; auto.
    - apply iinit_EI. }
  pose proof (proj1 (Forall_forall _ _) (EI_w E) w Hw) as HW.
  pose proof (proj1 (Forall_forall _ _) (EW_pl HW) (b, k) Hp) as (Hm & Hk & Hle). cbn [fst snd] in *.
  split; [apply (EW_cs HW)|]. split; [exact Hm|]. split; auto.
Qed.

End ExactIterRun.
