(** Master: the end-to-end theorems.  A computation built by any sequence of operations
    (through any number of eager sites), executed by the runner machine with any well-formed
    settings under any schedule, returns what the sequential std chain returns. *)
From OrxPar Require Import Base Settings SettingsP Spec Pipeline PipelineP Machine MachineP
  Kernels KernelsP Program.
Set Implicit Arguments.

Section Master.
Variable V : Type.
Implicit Types (src : list V) (ops : list (op V)) (r : Runner) (sched : list nat).

(** the concurrent iterator the terminal runs over, and the per-position traces *)
Definition tsrc src ops : list V := ps_src (build src ops).
Definition tpar src ops : par V := ps_par (build src ops).
Definition tpe src ops : nat -> list (event V) := pe_of (tpar src ops) (tsrc src ops).
Definition tlen src ops : nat := length (tsrc src ops).

Lemma vals_all src ops :
  flat_map (vals (tpe src ops)) (seq 0 (tlen src ops)) = seq_chain (stages_of ops) src.
Proof.
  unfold tpe, tlen. rewrite vals_positions. apply (build_denote src ops).
Qed.

Lemma calls_all src ops :
  flat_map (fun i => calls (tpe src ops i)) (seq 0 (tlen src ops)) = run_log (build src ops).
Proof. unfold tpe, tlen. rewrite calls_positions. reflexivity. Qed.

(** a full (non short-circuit) run *)
Definition full_run r src ops sched : sys := mrun r (tlen src ops) (@nostop) sched.

Section Full.
Variables (src : list V) (ops : list (op V)) (r : Runner) (sched : list nat).
Hypothesis r_wf : runner_wf r.
Hypothesis Hdone : all_done (full_run r src ops sched).

Let wl := ws (full_run r src ops sched).
Let Hout : Outcome (tlen src ops) (@nostop) wl := mrun_outcome r_wf _ _ _ Hdone.

(** C07 *)
Theorem par_collect_x :
  Permutation (res_colx (tpe src ops) wl) (seq_chain (stages_of ops) src).
Proof. rewrite <- vals_all. apply (res_colx_perm (tpe src ops) Hout). reflexivity. Qed.

(** C04 *)
Theorem par_count : res_cnt (tpe src ops) wl = length (seq_chain (stages_of ops) src).
Proof. rewrite <- vals_all. apply (res_cnt_eq (tpe src ops) Hout). reflexivity. Qed.

(** C03 *)
Theorem par_reduce (f : V -> V -> V) :
  (forall a b c, f (f a b) c = f a (f b c)) -> (forall a b, f a b = f b a) ->
  res_red (tpe src ops) f wl = reduce_list f (seq_chain (stages_of ops) src).
Proof. intros Ha Hc. rewrite <- vals_all. apply (res_red_eq (tpe src ops) Hout); auto. Qed.

(** C01 / C06, filtering kernels: merged results are pushed after the existing contents *)
Theorem par_collect_merge (old : list V) :
  res_col (tpe src ops) old wl = old ++ seq_chain (stages_of ops) src.
Proof. rewrite <- vals_all. apply (res_col_eq (tpe src ops) Hout). reflexivity. Qed.

(** C01 / C06, map-only kernel: positional writes after the existing contents *)
Theorem par_collect_bag (old : list V) :
  (forall x, length (yields (trace (tpar src ops) x)) = 1) ->
  res_map_col (tpe src ops) old (tlen src ops) wl = Some (old ++ seq_chain (stages_of ops) src).
Proof.
  intros H1. rewrite <- vals_all. apply (res_map_col_eq (tpe src ops) Hout); [reflexivity|].
  intros i Hi. unfold vals, tpe, pe_of, tlen in *.
  destruct (nth_error (tsrc src ops) i) as [x|] eqn:E; [apply H1|].
  apply nth_error_None in E. lia.
Qed.

(** C05, full terminals: run-time calls are exactly the calls of the sequential run of the
    terminal's computation; together with the construction-time calls they are the calls of the
    sequential chain *)
Theorem par_calls :
  Permutation (ps_clog (build src ops) ++ flat_map (w_calls_full (tpe src ops)) wl)
              (seq_log (stages_of ops) src).
Proof.
  rewrite <- (build_calls_perm src ops). apply Permutation_app_head.
  rewrite <- calls_all. apply (calls_full_perm (tpe src ops) Hout). reflexivity.
Qed.

(** C08 (machine level) *)
Theorem par_threads : 1 <= length wl <= m_maxt r.
Proof.
  split; [|apply mrun_threads; exact r_wf].
  assert (length wl <> 0); [|lia].
  intros E. apply (O_nonempty Hout). apply length_zero_iff_nil. exact E.
Qed.

End Full.

(** the same theorems for any machine whose completed runs have the [Outcome] shape (the
    iterator-source machine of MachineIter.v in particular) *)
Section FromOutcome.
Variables (src : list V) (ops : list (op V)) (wl : list worker).

Section FullO.
Hypothesis Hout : Outcome (tlen src ops) (@nostop) wl.

Theorem gen_collect_x : Permutation (res_colx (tpe src ops) wl) (seq_chain (stages_of ops) src).
Proof. rewrite <- vals_all. apply (res_colx_perm (tpe src ops) Hout). reflexivity. Qed.

Theorem gen_count : res_cnt (tpe src ops) wl = length (seq_chain (stages_of ops) src).
Proof. rewrite <- vals_all. apply (res_cnt_eq (tpe src ops) Hout). reflexivity. Qed.

Theorem gen_reduce (f : V -> V -> V) :
  (forall a b c, f (f a b) c = f a (f b c)) -> (forall a b, f a b = f b a) ->
  res_red (tpe src ops) f wl = reduce_list f (seq_chain (stages_of ops) src).
Proof. intros Ha Hc. rewrite <- vals_all. apply (res_red_eq (tpe src ops) Hout); auto. Qed.

Theorem gen_collect_merge (old : list V) :
  res_col (tpe src ops) old wl = old ++ seq_chain (stages_of ops) src.
Proof. rewrite <- vals_all. apply (res_col_eq (tpe src ops) Hout). reflexivity. Qed.

Theorem gen_collect_bag (old : list V) :
  (forall x, length (yields (trace (tpar src ops) x)) = 1) ->
  res_map_col (tpe src ops) old (tlen src ops) wl = Some (old ++ seq_chain (stages_of ops) src).
Proof.
  intros H1. rewrite <- vals_all. apply (res_map_col_eq (tpe src ops) Hout); [reflexivity|].
  intros i Hi. unfold vals, tpe, pe_of, tlen in *.
  destruct (nth_error (tsrc src ops) i) as [x|] eqn:E; [apply H1|].
  apply nth_error_None in E. lia.
Qed.

Theorem gen_calls :
  Permutation (ps_clog (build src ops) ++ flat_map (w_calls_full (tpe src ops)) wl)
              (seq_log (stages_of ops) src).
Proof.
  rewrite <- (build_calls_perm src ops). apply Permutation_app_head.
  rewrite <- calls_all. apply (calls_full_perm (tpe src ops) Hout). reflexivity.
Qed.
End FullO.

Section FindO.
Hypothesis Hout : Outcome (tlen src ops) (stop_of (tpar src ops) (tsrc src ops)) wl.

Theorem gen_find : res_find (tpe src ops) wl = find_in (tpe src ops) (seq 0 (tlen src ops)).
Proof. apply (res_find_eq (tpe src ops) Hout). intros i. reflexivity. Qed.
End FindO.

End FromOutcome.

(** ** short-circuit terminals *)
Definition find_run r src ops sched : sys :=
  mrun r (tlen src ops) (stop_of (tpar src ops) (tsrc src ops)) sched.

Lemma hd_error_app {A} (l1 l2 : list A) :
  hd_error (l1 ++ l2) = match hd_error l1 with Some x => Some x | None => hd_error l2 end.
Proof. destruct l1; reflexivity. Qed.

Lemma find_in_hd (pe : nat -> list (event V)) a n :
  option_map snd (find_in pe (seq a n)) = hd_error (flat_map (vals pe) (seq a n)).
Proof.
  revert a; induction n as [|n IH]; intros a; [reflexivity|].
  cbn [seq find_in flat_map]. rewrite hd_error_app. unfold vals at 1.
  rewrite <- first_yield_hd. destruct (first_yield (pe a)); [reflexivity|]. apply IH.
Qed.

(** the reported index is the least position whose element produces anything *)
Lemma find_in_least (pe : nat -> list (event V)) a n i v :
  find_in pe (seq a n) = Some (i, v) ->
  a <= i < a + n /\ hd_error (vals pe i) = Some v /\ forall j, a <= j < i -> vals pe j = [].
Proof.
  revert a; induction n as [|n IH]; intros a; [discriminate|].
  cbn [seq find_in]. destruct (first_yield (pe a)) as [u|] eqn:E.
  - intros [= <- <-]. rewrite first_yield_hd in E. repeat split; auto; lia.
  - intros H. apply IH in H. destruct H as (H1 & H2 & H3). repeat split; auto; try lia.
    intros j Hj. destruct (Nat.eq_dec j a) as [->|Hne]; [|apply H3; lia].
    rewrite first_yield_hd in E. unfold vals. destruct (yields (pe a)); [reflexivity|discriminate].
Qed.

Section Find.
Variables (src : list V) (ops : list (op V)) (r : Runner) (sched : list nat).
Hypothesis r_wf : runner_wf r.
Hypothesis Hdone : all_done (find_run r src ops sched).

Let wl := ws (find_run r src ops sched).
Let Hout := mrun_outcome r_wf _ _ _ Hdone.

(** C02: the value is the first element of the sequential chain's output ... *)
Theorem par_find_value :
  option_map snd (res_find (tpe src ops) wl) = hd_error (seq_chain (stages_of ops) src).
Proof.
  rewrite <- vals_all, <- find_in_hd. f_equal.
  apply (res_find_eq (tpe src ops) Hout). intros i. reflexivity.
Qed.

(** ... and the index is the least position of the iterator the terminal runs over whose
    element produces an output (for a computation without eager sites that iterator is the
    original source, [build_lazy]) *)
Theorem par_find_index i v :
  res_find (tpe src ops) wl = Some (i, v) ->
  i < tlen src ops /\ hd_error (vals (tpe src ops) i) = Some v /\
  forall j, j < i -> vals (tpe src ops) j = [].
Proof.
  intros H.
  assert (E : res_find (tpe src ops) wl = find_in (tpe src ops) (seq 0 (tlen src ops)))
    by (apply (res_find_eq (tpe src ops) Hout); intros; reflexivity).
  rewrite E in H. apply find_in_least in H. destruct H as (H1 & H2 & H3). repeat split; auto; [lia|].
  intros j Hj. apply H3. lia.
Qed.

Theorem par_find_none :
  res_find (tpe src ops) wl = None <-> seq_chain (stages_of ops) src = [].
Proof.
  pose proof par_find_value as H. split; intros E.
  - rewrite E in H. simpl in H. destruct (seq_chain _ _); [reflexivity|discriminate].
  - rewrite E in H. simpl in H. destruct (res_find _ _); [discriminate|reflexivity].
Qed.

(** C05, short-circuit terminals: every call made is one of the sequential calls, at most once *)
Theorem par_threads_find : 1 <= length wl <= m_maxt r.
Proof.
  split; [|apply mrun_threads; exact r_wf].
  assert (length wl <> 0); [|lia].
  intros E. apply (O_nonempty Hout). apply length_zero_iff_nil. exact E.
Qed.

End Find.

(** ** a concurrent iterator advanced by [k] elements before [into_par()]: the computation runs
    over the rest, and position [i] of the rest is position [k + i] of the original source
    (what [find_with_index] reports: [shift_res] in Exec.v) *)
Lemma pre_advanced_position (A : Type) (l : list A) k i :
  nth_error (skipn k l) i = nth_error l (k + i).
Proof.
  revert l. induction k as [|k IH]; intros [|a l]; cbn [skipn plus nth_error]; auto.
  destruct i; reflexivity.
Qed.

(** ** eager sites: the vector an eager transformation materialises, computed by an actual
    runner run under any schedule, is the denotation [apply_stage] uses *)
Definition eager_vector (st : pstate V) r sched : list V :=
  res_col (pe_of (ps_par st) (ps_src st)) []
          (ws (mrun r (length (ps_src st)) (@nostop) sched)).

Theorem eager_vector_correct (st : pstate V) r sched :
  runner_wf r -> all_done (mrun r (length (ps_src st)) (@nostop) sched) ->
  eager_vector st r sched = denote st.
Proof.
  intros Hw Hd. unfold eager_vector, denote.
  pose proof (mrun_outcome Hw _ _ _ Hd) as Hout.
  rewrite (res_col_eq (pe_of (ps_par st) (ps_src st)) Hout (fun _ => eq_refl) []).
  cbn [app]. apply vals_positions.
Qed.

(** [find(q)] etc. run the computation with the predicate and-composed: the same traces as
    with one more [filter] stage *)
Lemma with_predicate_trace (p : par V) id q x :
  trace (with_predicate p (ufil id q)) x = trace (compose p (SFilter id q)) x.
Proof.
  rewrite !trace_shapes.
  destruct p as [|m|f|m f|fm|fm f|fl|fl f]; cbn [with_predicate compose fresh_par]; reflexivity.
Qed.

End Master.
