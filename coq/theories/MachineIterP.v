(** MachineIterP: invariants of the iterator-source machine for every schedule:
    mutual exclusion on the user's iterator, true positions (a reader with ticket [t] receives
    exactly the positions [t, t+got)), the partition of [0, front) among the workers -- and
    hence the same [Outcome] the kernel theorems are proved from. *)
From OrxPar Require Import Base Machine MachineP MachineIter.
Set Implicit Arguments.

Section IterInv.
Variable srclen : nat.
Variable known : bool.
Variable ordered : bool.
Variable stop : nat -> bool.
Variable panics : nat -> bool.
Variable dospawn : nat -> option nat -> bool.
Variable nextc : nat -> option nat -> option nat.
Variable maxt : nat.

Hypothesis dospawn_bound : forall n h, dospawn n h = true -> n + 2 <= maxt.
Hypothesis nextc_pos : forall n h c, nextc n h = Some c -> 0 < c.
Hypothesis maxt_pos : 1 <= maxt.

Notation iwstep := (iwstep srclen ordered stop panics).
Notation istep := (istep srclen known ordered stop panics dospawn nextc).
Notation irun := (irun srclen known ordered stop panics dospawn nextc).
Notation isstep := (isstep srclen known dospawn nextc).
Notation nostop := (nostop stop panics).
Notation stopped := (stopped stop panics).
Notation halt := (halt stop panics).

Definition own (w : iworker) : list nat := owned (wk w).

Definition reading_range (w : iworker) : list nat :=
  match iph w with IReading t got => seq t got | _ => [] end.

Record IW (w : iworker) : Prop := {
  IW_hist : own w = chunks_of (ipulls w) ++ reading_range w;
  IW_incr : incr (own w);
  IW_cs : 0 < icsize w;
  IW_stop : nostop (wk w) \/ exists m, stopped (wk w) m
}.

(** a reader holding ticket [t] with [got] elements read so far sits exactly at the frontier *)
Definition RD (f : nat) (w : iworker) : Prop :=
  forall t got, iph w = IReading t got -> f = t + got /\ got <= icsize w.

Record IGInv (s : isys) : Prop := {
  I_perm : Permutation (flat_map own (iws s)) (seq 0 (ifront s));
  I_front : ifront s <= srclen;
  I_open : forall n, igate s = Open n -> n = ifront s /\ readers (iws s) = 0;
  I_busy : igate s = Busy -> readers (iws s) = 1;
  I_closed : igate s = Closed -> readers (iws s) <= 1;
  I_rd : Forall (RD (ifront s)) (iws s);
  I_cl_front : igate s = Closed -> iskipped s = false -> ifront s = srclen;
  I_done : (exists w, In w (iws s) /\ iph w = IDone) -> igate s = Closed;
  I_w : Forall IW (iws s);
  I_sk : iskipped s = true -> exists w m, In w (iws s) /\ stopped (wk w) m;
  I_cur : 0 < icur s;
  I_sp : match isph s with SpDone => 1 <= length (iws s) <= maxt | _ => length (iws s) + 1 <= maxt end
}.

Lemma readers_app a b : readers (a ++ b) = readers a + readers b.
Proof. unfold readers. rewrite filter_app, app_length. reflexivity. Qed.
Lemma readers_cons w l : readers (w :: l) = (if is_reading w then 1 else 0) + readers l.
Proof. unfold readers. simpl. destruct (is_reading w); reflexivity. Qed.

Lemma readers0_RD l f : readers l = 0 -> Forall (RD f) l.
Proof.
  induction l as [|w t IH]; intros H; constructor.
  - rewrite readers_cons in H. unfold RD. intros t0 got E. unfold is_reading in H. rewrite E in H. lia.
  - apply IH. rewrite readers_cons in H. lia.
Qed.

Lemma RD_notreading f w : is_reading w = false -> RD f w.
Proof. unfold RD, is_reading. intros H t got E. rewrite E in H. discriminate. Qed.

(** everything the invariant says about the stepping worker [w] and the others, in split form *)
Record Split (g : gate) (f : nat) (sk : bool) (l1 : list iworker) (w : iworker) (l2 : list iworker) : Prop := {
  S_perm : Permutation (flat_map own (l1 ++ w :: l2)) (seq 0 f);
  S_front : f <= srclen;
  S_open : forall n, g = Open n -> n = f /\ readers l1 + (if is_reading w then 1 else 0) + readers l2 = 0;
  S_busy : g = Busy -> readers l1 + (if is_reading w then 1 else 0) + readers l2 = 1;
  S_closed : g = Closed -> readers l1 + (if is_reading w then 1 else 0) + readers l2 <= 1;
  S_rd1 : Forall (RD f) l1; S_rdw : RD f w; S_rd2 : Forall (RD f) l2;
  S_cl_front : g = Closed -> sk = false -> f = srclen;
  S_done : (exists x, (x = w \/ In x (l1 ++ l2)) /\ iph x = IDone) -> g = Closed;
  S_w1 : Forall IW l1; S_ww : IW w; S_w2 : Forall IW l2;
  S_sk : sk = true -> exists x m, (x = w \/ In x (l1 ++ l2)) /\ stopped (wk x) m
}.

Lemma In_mid {X} (l1 l2 : list X) w' x : In x (l1 ++ w' :: l2) -> x = w' \/ In x (l1 ++ l2).
Proof. intros H. apply in_app_or in H. destruct H as [H|[H|H]]; auto; right; apply in_or_app; auto. Qed.
Lemma In_mid_old {X} (l1 l2 : list X) w x : In x (l1 ++ l2) -> In x (l1 ++ w :: l2).
Proof. intros H. apply in_app_or in H. apply in_or_app. destruct H; auto. right; right; auto. Qed.

Lemma flat_map_mid (l1 l2 : list iworker) w :
  flat_map own (l1 ++ w :: l2) = flat_map own l1 ++ own w ++ flat_map own l2.
Proof. rewrite flat_map_app. reflexivity. Qed.

Lemma perm_mid l1 l2 w w' extra L :
  Permutation (flat_map own (l1 ++ w :: l2)) L ->
  Permutation (own w') (own w ++ extra) ->
  Permutation (flat_map own (l1 ++ w' :: l2)) (L ++ extra).
Proof.
  intros H1 H2. rewrite flat_map_mid in *. rewrite H2. rewrite <- H1.
  rewrite <- !app_assoc. apply Permutation_app_head. apply Permutation_app_head.
  apply Permutation_app_comm.
Qed.

Lemma own_lt_front l1 w l2 f x y :
  Permutation (flat_map own (l1 ++ w :: l2)) (seq 0 f) -> (x = w \/ In x (l1 ++ l2)) -> In y (own x) -> y < f.
Proof.
  intros P Hx Hy. assert (In y (flat_map own (l1 ++ w :: l2))).
  { apply in_flat_map. exists x. split; auto. destruct Hx as [->|Hx]; [apply in_or_app; right; left; auto|].
    apply In_mid_old; auto. }
  eapply Permutation_in in H; [|exact P]. apply in_seq in H. lia.
Qed.

Ltac same_owned Hp :=
  rewrite <- (app_nil_r (seq 0 _)); eapply perm_mid; [exact Hp|];
  unfold own, owned, pending, wk; cbn [ph seen aband conv iph iseen iaband];
  repeat rewrite app_nil_r; repeat rewrite <- app_assoc; simpl; try apply Permutation_refl.

Ltac done_old Hd :=
  let x := fresh "x" in let Hx := fresh "Hx" in let Hx' := fresh "Hx'" in
  intros [x [[->|Hx] Hx']]; cbn [iph] in *; try discriminate; apply Hd; eauto.

Ltac sk_old Hk :=
  let E := fresh "E" in let x := fresh "x" in let m := fresh "m" in let Hx := fresh "Hx" in let Hm := fresh "Hm" in
  intros E; destruct (Hk E) as (x & m & Hx & Hm); exists x, m; split; auto.

(** a worker whose phase changes among the non-halted ones keeps its stop status *)
Lemma nostop_setph w p : nostop (wk w) -> conv p <> Found -> conv p <> Dead -> nostop (wk (setph w p)).
Proof. intros (H1 & H2 & _ & _) Hf Hd. unfold nostop, wk, setph; cbn. auto. Qed.

Ltac iw_field hist_tac incr_tac stop_tac :=
  match goal with
  | |- own _ = _ => hist_tac
  | |- incr _ => incr_tac
  | |- _ \/ _ => stop_tac
  end.

Lemma iwstep_Split c g f sk l1 w l2 c' g' f' sk' w' :
  Split g f sk l1 w l2 -> iwstep c g f sk w = (c', g', f', sk', w') -> Split g' f' sk' l1 w' l2.
Proof.
  intros [Hp Hf Ho Hb Hc Hr1 Hrw Hr2 Hcf Hd Hw1 Hww Hw2 Hk] E.
  assert (Hlt : forall y, In y (own w) -> y < f).
  { intros y Hy. eapply own_lt_front; [exact Hp|left; reflexivity|exact Hy]. }
  destruct Hww as [Wh Wi Wcs Ws].
  unfold MachineIter.iwstep in E. destruct w as [cs p sn ab pl]; cbn [icsize iph iseen iaband ipulls] in *.
  unfold setph in E; cbn [icsize iph iseen iaband ipulls] in E.
  assert (Hsk_w : forall w2 : iworker, (forall m, stopped (wk (mkIW cs p sn ab pl)) m -> stopped (wk w2) m) ->
            sk = true -> exists x m, (x = w2 \/ In x (l1 ++ l2)) /\ stopped (wk x) m).
  { intros w2 Hm Es. destruct (Hk Es) as (x & m & [->|Hx] & Hxm); [exists w2, m|exists x, m]; auto. }
  destruct p as [|t|t got|b k| | |]; cbn [is_reading iph] in *.
  - (* IReady: take a ticket *)
    injection E as <- <- <- <- <-.
    constructor; cbn [is_reading iph]; auto; try solve [same_owned Hp]; try solve [apply RD_notreading; reflexivity];
      try solve [done_old Hd].
    all: try solve [apply Hsk_w; intros m (s0 & _ & _ & _ & _ & Hph & _); discriminate].
    constructor; auto.
  - (* ITicket: try to get the handle *)
    assert (Hns : nostop (wk (mkIW cs (ITicket t) sn ab pl))).
    { destruct Ws as [H|(m & s0 & _ & _ & _ & _ & Hph & _)]; [exact H|discriminate]. }
    destruct g as [n| |].
    + assert (Hacq : Split Busy f sk l1 (mkIW cs (IReading f 0) sn ab pl) l2).
      { destruct (Ho n eq_refl) as [-> Hr0].
        constructor; cbn [is_reading iph]; auto; try discriminate; try solve [same_owned Hp]; try solve [done_old Hd].
        all: try solve [apply Hsk_w; intros m (s0 & _ & _ & _ & _ & Hph & _); discriminate].
        - intros _. lia.
        - unfold RD; cbn. intros t0 got0 [= <- <-]. lia.
        - intros [x [[->|Hx] Hx']]; cbn in *; try discriminate.
          assert (HH : Open f = Closed) by (apply Hd; eauto). discriminate HH.
        - constructor; auto.
          left. destruct Hns as (H1 & H2 & _ & _). repeat split; auto; discriminate. }
      destruct ordered.
      * destruct (n =? t) eqn:Ent.
        -- apply Nat.eqb_eq in Ent. destruct (Ho n eq_refl) as [En _]. subst n t.
           injection E as <- <- <- <- <-. exact Hacq.
        -- injection E as <- <- <- <- <-. constructor; auto. constructor; auto.
      * injection E as <- <- <- <- <-. exact Hacq.
    + injection E as <- <- <- <- <-. constructor; auto. constructor; auto.
    + (* Closed: the pull returns None *)
      injection E as <- <- <- <- <-.
      constructor; cbn [is_reading iph]; auto; try discriminate; try solve [same_owned Hp];
        try solve [apply RD_notreading; reflexivity].
      all: try solve [apply Hsk_w; intros m (s0 & _ & _ & _ & _ & Hph & _); discriminate].
      * constructor; auto. left. destruct Hns as (H1 & H2 & _ & _). repeat split; auto; discriminate.
  - (* IReading *)
    destruct (Hrw t got eq_refl) as [Hfr Hgot]. cbn [icsize] in Hgot.
    assert (Hns : nostop (wk (mkIW cs (IReading t got) sn ab pl))).
    { destruct Ws as [H|(m & s0 & _ & _ & _ & _ & Hph & _)]; [exact H|discriminate]. }
    assert (Hothers : readers l1 = 0 /\ readers l2 = 0).
    { destruct g as [n| |].
      - destruct (Ho n eq_refl). lia.
      - specialize (Hb eq_refl). lia.
      - specialize (Hc eq_refl). lia. }
    destruct Hothers as [R1 R2].
    destruct ((got <? cs) && (f <? srclen)) eqn:Econd.
    + (* one more element *)
      apply andb_true_iff in Econd. destruct Econd as [Eg Ef].
      apply Nat.ltb_lt in Eg. apply Nat.ltb_lt in Ef.
      injection E as <- <- <- <- <-. subst f.
      constructor; cbn [is_reading iph]; auto; try lia; try solve [done_old Hd].
      all: try solve [apply Hsk_w; intros m (s0 & _ & _ & _ & _ & Hph & _); discriminate].
      * replace (seq 0 (S (t + got))) with (seq 0 (t + got) ++ [t + got]) by (rewrite seq_S; reflexivity).
        eapply perm_mid; [exact Hp|].
        unfold own, owned, pending, wk; cbn [ph seen aband conv iph iseen iaband].
        rewrite seq_S. rewrite <- !app_assoc.
        apply Permutation_app_head. apply Permutation_app_head. apply Permutation_app_comm.
      * intros n En. destruct (Ho n En). lia.
      * apply readers0_RD; auto.
      * unfold RD; cbn. intros t0 got0 [= <- <-]. lia.
      * apply readers0_RD; auto.
      * intros Eg' Es. specialize (Hcf Eg' Es). lia.
      * constructor; auto.
        -- destruct Hns as (_ & Hab & _). cbn in Hab. subst ab.
           unfold own, owned, pending, wk, reading_range in *;
             cbn [ph seen aband conv iph iseen iaband ipulls pulls] in *.
           rewrite !app_nil_r in *. rewrite !seq_S, !app_assoc, Wh. reflexivity.
        -- destruct Hns as (_ & Hab & _). cbn in Hab. subst ab.
           unfold own, owned, pending, wk in *; cbn [ph seen aband conv iph iseen iaband ipulls pulls] in *.
           rewrite !app_nil_r in *. rewrite seq_S, app_assoc. apply incr_app; auto.
           ++ repeat constructor.
           ++ intros x y Hx [<-|[]]. specialize (Hlt x Hx). lia.
        -- left. destruct Hns as (H1 & H2 & _ & _). repeat split; auto; discriminate.
    + (* release the handle *)
      apply andb_false_iff in Econd.
      injection E as <- <- <- <- <-.
      constructor; cbn [is_reading iph]; auto; try solve [apply RD_notreading; reflexivity].
      all: try solve [apply Hsk_w; intros m (s0 & _ & _ & _ & _ & Hph & _); discriminate].
      * same_owned Hp.
      * intros n En. destruct g as [n0| |].
        -- destruct (Ho n0 eq_refl). lia.
        -- destruct (got =? cs) eqn:Egc; try discriminate. apply Nat.eqb_eq in Egc.
           injection En as <-. split; lia.
        -- discriminate.
      * intros En. destruct g as [n0| |]; try discriminate.
        destruct (got =? cs); discriminate.
      * intros _. lia.
      * intros En Es. destruct g as [n0| |]; try discriminate.
        -- destruct (got =? cs) eqn:Egc; try discriminate. apply Nat.eqb_neq in Egc.
           destruct Econd as [Ec|Ec]; apply Nat.ltb_ge in Ec; lia.
        -- auto.
      * intros [x [[->|Hx] Hx']]; cbn in *; try discriminate.
        assert (g = Closed) by (apply Hd; eauto). subst g. reflexivity.
      * constructor; auto;
          iw_field
            ltac:(unfold own, owned, pending, wk, reading_range in *;
                  cbn [ph seen aband conv iph iseen iaband ipulls pulls] in *;
                  rewrite chunks_of_app; unfold chunks_of at 2; cbn [flat_map fst snd];
                  rewrite ?app_nil_r in *; rewrite <- ?app_assoc; exact Wh)
            ltac:(exact Wi)
            ltac:(left; destruct Hns as (H1 & H2 & _ & _); repeat split; auto; discriminate).
  - (* IHolding: process an element *)
    assert (Hns : nostop (wk (mkIW cs (IHolding b k) sn ab pl))).
    { destruct Ws as [H|(m & s0 & _ & _ & _ & _ & Hph & _)]; [exact H|discriminate]. }
    destruct Hns as (Hns & Hab & _ & _). cbn in Hns, Hab. subst ab.
    assert (Whr : sn ++ seq b k = chunks_of pl).
    { unfold own, owned, pending, wk, reading_range in Wh; cbn in Wh. now rewrite !app_nil_r in Wh. }
    assert (Wir : incr (sn ++ seq b k)).
    { unfold own, owned, pending, wk in Wi; cbn in Wi. now rewrite !app_nil_r in Wi. }
    destruct k as [|k].
    + injection E as <- <- <- <- <-.
      constructor; cbn [is_reading iph]; auto; try solve [same_owned Hp]; try solve [apply RD_notreading; reflexivity];
        try solve [done_old Hd].
      all: try solve [apply Hsk_w; intros m (s0 & _ & _ & _ & _ & Hph & _); discriminate].
      * constructor; auto;
          iw_field
            ltac:(unfold own, owned, pending, wk, reading_range; cbn [ph seen aband conv iph iseen iaband ipulls pulls seq];
                  cbn [seq] in Whr; rewrite ?app_nil_r in *; exact Whr)
            ltac:(unfold own, owned, pending, wk; cbn [ph seen aband conv iph iseen iaband ipulls pulls seq];
                  cbn [seq] in Wir; rewrite ?app_nil_r in *; exact Wir)
            ltac:(left; repeat split; auto; discriminate).
    + destruct (panics b) eqn:Epn; [|destruct (stop b) eqn:Es].
      * (* panic *)
        injection E as <- <- <- <- <-.
        constructor; cbn [is_reading iph]; auto; try solve [same_owned Hp]; try solve [apply RD_notreading; reflexivity];
          try solve [done_old Hd].
        all: try solve [apply Hsk_w; intros m (s0 & _ & _ & _ & _ & Hph & _); discriminate].
        -- constructor; auto;
             iw_field
               ltac:(unfold own, owned, pending, wk, reading_range; cbn [ph seen aband conv iph iseen iaband ipulls pulls];
                     rewrite ?app_nil_r, <- ?app_assoc; exact Whr)
               ltac:(unfold own, owned, pending, wk; cbn [ph seen aband conv iph iseen iaband ipulls pulls];
                     rewrite ?app_nil_r, <- ?app_assoc; exact Wir)
               ltac:(right; exists b, sn; unfold MachineP.halt; rewrite Epn; cbn; repeat split; auto; try discriminate;
                     intros i Hi; rewrite ?app_nil_r in Hi; apply in_seq in Hi; lia).
      * (* early exit *)
        injection E as <- <- <- <- <-.
        constructor; cbn [is_reading iph]; auto; try solve [same_owned Hp]; try solve [apply RD_notreading; reflexivity];
          try solve [done_old Hd].
        all: try solve [apply Hsk_w; intros m (s0 & _ & _ & _ & _ & Hph & _); discriminate].
        -- constructor; auto;
             iw_field
               ltac:(unfold own, owned, pending, wk, reading_range; cbn [ph seen aband conv iph iseen iaband ipulls pulls];
                     rewrite ?app_nil_r, <- ?app_assoc; exact Whr)
               ltac:(unfold own, owned, pending, wk; cbn [ph seen aband conv iph iseen iaband ipulls pulls];
                     rewrite ?app_nil_r, <- ?app_assoc; exact Wir)
               ltac:(right; exists b, sn; unfold MachineP.halt; rewrite Epn, Es; cbn; repeat split; auto; try discriminate;
                     intros i Hi; rewrite ?app_nil_r in Hi; apply in_seq in Hi; lia).
      * assert (Hns' : forall i, In i (sn ++ [b]) -> halt i = false).
        { intros i Hi. apply in_app_or in Hi. destruct Hi as [Hi|[<-|[]]]; auto.
          unfold MachineP.halt. now rewrite Epn, Es. }
        destruct k as [|k]; injection E as <- <- <- <- <-;
          (constructor; cbn [is_reading iph]; auto; try solve [same_owned Hp];
           try solve [apply RD_notreading; reflexivity]; try solve [done_old Hd];
           try solve [apply Hsk_w; intros m (s0 & _ & _ & _ & _ & Hph & _); discriminate];
           constructor; auto;
           iw_field
             ltac:(unfold own, owned, pending, wk, reading_range; cbn [ph seen aband conv iph iseen iaband ipulls pulls];
                   rewrite ?app_nil_r, <- ?app_assoc; exact Whr)
             ltac:(unfold own, owned, pending, wk; cbn [ph seen aband conv iph iseen iaband ipulls pulls];
                   rewrite ?app_nil_r, <- ?app_assoc; exact Wir)
             ltac:(left; repeat split; auto; discriminate)).
  - (* IFound: skip_to_end *)
    assert (Hst : exists m, stopped (wk (mkIW cs IFound sn ab pl)) m).
    { destruct Ws as [(_ & _ & Hp' & _)|Hm]; auto. exfalso; apply Hp'; reflexivity. }
    destruct Hst as (m & s0 & Hs1 & Hs2 & Hs3 & Hs4 & _ & _ & Hs7). cbn in Hs1, Hs4, Hs7.
    assert (Hst' : stopped (wk (mkIW cs IDone sn ab pl)) m).
    { exists s0. cbn. repeat split; auto; try discriminate. intros Hp'. specialize (Hs7 Hp'). discriminate. }
    injection E as <- <- <- <- <-.
    constructor; cbn [is_reading iph]; auto; try discriminate; try solve [same_owned Hp];
      try solve [apply RD_notreading; reflexivity].
    all: try solve [apply Hsk_w; intros m (s0 & _ & _ & _ & _ & Hph & _); discriminate].
    + intros _. destruct g as [n| |].
      * destruct (Ho n eq_refl). lia.
      * specialize (Hb eq_refl). lia.
      * specialize (Hc eq_refl). lia.
    + constructor; auto. right. exists m. exact Hst'.
    + intros _. exists (mkIW cs IDone sn ab pl), m. auto.
  - (* IDone *)
    injection E as <- <- <- <- <-. constructor; auto. constructor; auto.
  - (* IDead *)
    injection E as <- <- <- <- <-. constructor; auto. constructor; auto.
Qed.


Lemma IGInv_Split c g f sk l1 w l2 p cu :
  IGInv (mkIS c g f sk (l1 ++ w :: l2) p cu) <->
  (Split g f sk l1 w l2 /\ 0 < cu /\
   match p with SpDone => 1 <= length (l1 ++ w :: l2) <= maxt | _ => length (l1 ++ w :: l2) + 1 <= maxt end).
Proof.
  split.
  - intros [Hp Hf Ho Hb Hc Hr Hcf Hd Hw Hk Hcu Hsp]; cbn [ictr igate ifront iskipped iws isph icur] in *.
    rewrite readers_app, readers_cons in *.
    apply Forall_app in Hr. destruct Hr as [Hr1 Hr2]. inversion Hr2; subst.
    apply Forall_app in Hw. destruct Hw as [Hw1 Hw2]. inversion Hw2; subst.
    split; [|split; auto]. constructor; auto.
    + intros n E. destruct (Ho n E). split; auto; lia.
    + intros E. specialize (Hb E). lia.
    + intros E. specialize (Hc E). lia.
    + intros [x [[->|Hx] Hd']]; apply Hd; [exists w | exists x]; split; auto.
      * apply in_or_app; right; left; auto.
      * apply In_mid_old; auto.
    + intros E. destruct (Hk E) as (x & m & Hx & Hm). exists x, m. split; auto. apply In_mid in Hx. auto.
  - intros ([Hp Hf Ho Hb Hc Hr1 Hrw Hr2 Hcf Hd Hw1 Hww Hw2 Hk] & Hcu & Hsp).
    constructor; cbn [ictr igate ifront iskipped iws isph icur]; auto; rewrite ?readers_app, ?readers_cons.
    + intros n E. destruct (Ho n E). split; auto; lia.
    + intros E. specialize (Hb E). lia.
    + intros E. specialize (Hc E). lia.
    + apply Forall_app; split; auto.
    + intros [x [Hx Hd']]. apply Hd. exists x. split; auto. apply In_mid in Hx. auto.
    + apply Forall_app; split; auto.
    + intros E. destruct (Hk E) as (x & m & [->|Hx] & Hm).
      * exists w, m. split; auto. apply in_or_app; right; left; auto.
      * exists x, m. split; auto. apply In_mid_old; auto.
Qed.

Lemma upd_split {X} (l1 l2 : list X) w w' : upd (l1 ++ w :: l2) (length l1) w' = l1 ++ w' :: l2.
Proof. induction l1; simpl; congruence. Qed.

Lemma ifresh_IW c : 0 < c -> IW (ifresh c).
Proof.
  intros Hc. constructor; unfold own, owned, pending, wk, reading_range; cbn; auto.
  - constructor.
  - left. repeat split; auto; try discriminate. intros i [].
Qed.

Lemma isstep_IGInv s : IGInv s -> IGInv (isstep s).
Proof.
  intros G. destruct G as [Gp Gf Go Gb Gc Gr Gcf Gd Gw Gk Gu Gs] eqn:EG. clear EG.
  unfold MachineIter.isstep.
  assert (Hspawn : forall ph', length (iws s) + 1 <= maxt ->
     match ph' with SpDone => True | _ => length (iws s) + 2 <= maxt end ->
     IGInv (ispawn s ph')).
  { intros ph' Hl Hph. constructor; cbn [ictr igate ifront iskipped iws isph icur ispawn]; auto.
    - rewrite flat_map_app. cbn. rewrite app_nil_r. exact Gp.
    - intros n E. destruct (Go n E). split; auto. rewrite readers_app. cbn. lia.
    - intros E. rewrite readers_app. cbn. specialize (Gb E). lia.
    - intros E. rewrite readers_app. cbn. specialize (Gc E). lia.
    - apply Forall_app; split; auto. constructor; [|constructor]. apply RD_notreading. reflexivity.
    - intros (w & Hw & Hd). apply in_app_or in Hw. destruct Hw as [Hw|[<-|[]]]; [|discriminate].
      apply Gd; eauto.
    - apply Forall_app; split; auto. constructor; [|constructor]. apply ifresh_IW. exact Gu.
    - intros Hs. destruct (Gk Hs) as (w & m & Hw & Hm). exists w, m. split; auto. apply in_or_app; auto.
    - rewrite app_length. cbn. destruct ph'; lia. }
  destruct (isph s) as [j| | |] eqn:Ep.
  - destruct (dospawn (length (iws s)) (ihas_more srclen known s)) eqn:Ed.
    + apply dospawn_bound in Ed. apply Hspawn; [lia|]. destruct j as [|[|j]]; lia.
    + constructor; cbn; auto.
  - destruct (nextc (length (iws s)) (ihas_more srclen known s)) as [c|] eqn:En.
    + constructor; cbn; auto. eapply nextc_pos; eauto.
    + constructor; cbn; auto.
  - apply Hspawn; auto.
  - constructor; auto. rewrite Ep. exact Gs.
Qed.

Lemma istep_IGInv s t : IGInv s -> IGInv (istep s t).
Proof.
  intros G. destruct t as [|i]; [apply isstep_IGInv; exact G|].
  unfold MachineIter.istep.
  destruct (nth_error (iws s) i) as [w|] eqn:En; [|exact G].
  apply nth_error_split in En. destruct En as (l1 & l2 & El & Hi). subst i.
  destruct s as [c g f sk l p cu]; cbn [ictr igate ifront iskipped iws isph icur] in *. subst l.
  destruct (iwstep c g f sk w) as [[[[c' g'] f'] sk'] w'] eqn:Ew.
  rewrite upd_split. apply IGInv_Split in G. destruct G as (GS & Hcu & Hsp).
  apply IGInv_Split. split; [eapply iwstep_Split; eauto|]. split; auto.
  rewrite app_length in *. cbn [length] in *. exact Hsp.
Qed.

Theorem irun_IGInv s sched : IGInv s -> IGInv (irun s sched).
Proof. revert s; induction sched as [|t r IH]; intros s H; simpl; auto. apply IH, istep_IGInv, H. Qed.

Lemma iinit_IGInv c0 : 0 < c0 -> IGInv (iinit c0).
Proof.
  intros Hc. constructor; cbn; auto; try lia; try discriminate.
  - intros n [= <-]. auto.
  - intros (w & [] & _).
Qed.

(** C05: at most one thread is inside the user's iterator, in every reachable state *)
Theorem mutual_exclusion c0 sched : 0 < c0 -> readers (iws (irun (iinit c0) sched)) <= 1.
Proof.
  intros Hc. pose proof (irun_IGInv sched (iinit_IGInv Hc)) as G.
  destruct (igate (irun (iinit c0) sched)) eqn:Eg.
  - destruct (I_open G Eg). lia.
  - rewrite (I_busy G Eg). lia.
  - apply (I_closed G Eg).
Qed.

(** C05: a reader's elements are the source's elements at the frontier: the reader with
    ticket [t] that has read [got] elements sits exactly at position [t + got] *)
Theorem reader_positions c0 sched w t got : 0 < c0 ->
  In w (iws (irun (iinit c0) sched)) -> iph w = IReading t got ->
  ifront (irun (iinit c0) sched) = t + got.
Proof.
  intros Hc Hw Hp. pose proof (irun_IGInv sched (iinit_IGInv Hc)) as G.
  pose proof (I_rd G) as Hr. rewrite Forall_forall in Hr. destruct (Hr w Hw t got Hp). auto.
Qed.

(** a completed panic-free run over an iterator source looks to the kernels exactly like a run
    over an indexed source *)
Theorem ifinal_outcome s : IGInv s -> iall_done s -> (forall i, panics i = false) ->
  Outcome srclen halt (map wk (iws s)).
Proof.
  intros G [Hsp Hfin] Hnp.
  destruct G as [Gp Gf Go Gb Gc Gr Gcf Gd Gw Gk Gu Gs]. rewrite Hsp in Gs.
  rewrite Forall_forall in Gw.
  assert (Hdone : forall w, In w (iws s) -> iph w = IDone).
  { intros w Hw. destruct (Hfin w Hw) as [H|H]; auto. exfalso.
    destruct (IW_stop (Gw w Hw)) as [(_ & _ & _ & H4)|(m & s0 & _ & _ & _ & _ & _ & H6 & _)].
    - apply H4. unfold wk; cbn. rewrite H. reflexivity.
    - rewrite Hnp in H6. assert (false = true); [|discriminate]. apply H6. unfold wk; cbn. rewrite H. reflexivity. }
  assert (Hne : iws s <> []) by (destruct (iws s); [simpl in Gs; lia|discriminate]).
  assert (Hcl : igate s = Closed).
  { apply Gd. destruct (iws s) as [|w t]; [congruence|]. exists w. split; [left; auto|apply Hdone; left; auto]. }
  apply outcome_from_facts with (fr := ifront s) (sk := iskipped s) (maxt := maxt); try exact maxt_pos.
  - destruct (iws s); [congruence|discriminate].
  - intros w Hw. apply in_map_iff in Hw. destruct Hw as (iw & <- & Hiw). unfold wk; cbn. now rewrite (Hdone iw Hiw).
  - rewrite <- Gp. unfold own. clear. induction (iws s) as [|w t IH]; cbn; [reflexivity|]. now rewrite IH.
  - exact Gf.
  - intros Hs. apply Gcf; auto.
  - intros w Hw. apply in_map_iff in Hw. destruct Hw as (iw & <- & Hiw).
    destruct (Gw iw Hiw) as [Wh Wi _ Ws]. unfold own, reading_range in *. rewrite (Hdone iw Hiw), app_nil_r in Wh.
    repeat split; auto.
  - intros Hs. destruct (Gk Hs) as (iw & m & Hiw & Hm). exists (wk iw), m. split; auto. apply in_map. exact Hiw.
Qed.

End IterInv.
