(** Spec: the std-iterator semantics of a chain of map / filter / flat_map / filter_map
    adaptors, as the depth-first trace of closure calls and yielded values per source element.

    A std chain is pull based: for each source element, every adaptor closure is evaluated
    depth first, lazily (a closure downstream of a [flat_map] runs once per sub-element, in
    order).  [ev c v] is that trace for one source element [v]; a full consumer sees all of it,
    a short-circuit consumer ([find]) a prefix.  Closure identities are naturals. *)
From OrxPar Require Import Base.
Set Implicit Arguments.

Section Spec.
Variable V : Type.

Inductive stage :=
| SMap (id : nat) (f : V -> V)
| SFilter (id : nat) (p : V -> bool)
| SFlatMap (id : nat) (g : V -> list V)
| SFilterMap (id : nat) (h : V -> option V).

Inductive event := ECall (id : nat) (arg : V) | EYield (v : V).

Definition chain := list stage.

Fixpoint ev (c : chain) (v : V) : list event :=
  match c with
  | [] => [EYield v]
  | SMap id f :: r => ECall id v :: ev r (f v)
  | SFilter id p :: r => ECall id v :: (if p v then ev r v else [])
  | SFlatMap id g :: r => ECall id v :: flat_map (ev r) (g v)
  | SFilterMap id h :: r => ECall id v :: (match h v with Some y => ev r y | None => [] end)
  end.

Definition yields (l : list event) : list V :=
  flat_map (fun e => match e with EYield v => [v] | ECall _ _ => [] end) l.

Definition calls (l : list event) : list (nat * V) :=
  flat_map (fun e => match e with ECall id a => [(id, a)] | EYield _ => [] end) l.

(** the values one source element contributes to the output, without the trace *)
Fixpoint out (c : chain) (v : V) : list V :=
  match c with
  | [] => [v]
  | SMap _ f :: r => out r (f v)
  | SFilter _ p :: r => if p v then out r v else []
  | SFlatMap _ g :: r => flat_map (out r) (g v)
  | SFilterMap _ h :: r => match h v with Some y => out r y | None => [] end
  end.

(** what [input.iter().<chain>.collect::<Vec<_>>()] returns *)
Definition seq_chain (c : chain) (input : list V) : list V := flat_map (out c) input.

(** the calls a full sequential evaluation makes, in order *)
Definition seq_log (c : chain) (input : list V) : list (nat * V) :=
  flat_map (fun x => calls (ev c x)) input.

(** [bind l k]: replace every yielded value of a trace by the trace [k] produces for it *)
Definition bind (l : list event) (k : V -> list event) : list event :=
  flat_map (fun e => match e with EYield v => k v | ECall _ _ => [e] end) l.

(** prefix of a trace up to and including the first yield (what [find] consumes);
    the flag says whether a yield was reached *)
Fixpoint upto_yield (l : list event) : list event * option V :=
  match l with
  | [] => ([], None)
  | EYield v :: _ => ([EYield v], Some v)
  | e :: r => let '(p, o) := upto_yield r in (e :: p, o)
  end.

Definition first_yield (l : list event) : option V := snd (upto_yield l).

(** sequential short-circuit evaluation over a list of source elements:
    trace consumed, and the first yield with the position of its source element *)
Fixpoint seq_find_from (c : chain) (i : nat) (input : list V) : list event * option (nat * V) :=
  match input with
  | [] => ([], None)
  | x :: r =>
      let '(p, o) := upto_yield (ev c x) in
      match o with
      | Some v => (p, Some (i, v))
      | None => let '(p', o') := seq_find_from c (S i) r in (p ++ p', o')
      end
  end.

Definition seq_find (c : chain) (input : list V) := seq_find_from c 0 input.

(** left fold without identity: [Iterator::reduce] *)
Definition reduce_list (op : V -> V -> V) (l : list V) : option V :=
  match l with
  | [] => None
  | x :: r => Some (fold_left op r x)
  end.

End Spec.

Arguments SMap {V}. Arguments SFilter {V}. Arguments SFlatMap {V}. Arguments SFilterMap {V}.
Arguments ECall {V}. Arguments EYield {V}.

(** * Basic facts *)
Section SpecFacts.
Variable V : Type.
Implicit Types (c : chain V) (l : list (event V)).

Lemma yields_app l1 l2 : yields (l1 ++ l2) = yields l1 ++ yields l2.
Proof. unfold yields. apply flat_map_app. Qed.

Lemma calls_app l1 l2 : calls (l1 ++ l2) = calls l1 ++ calls l2.
Proof. unfold calls. apply flat_map_app. Qed.

Lemma bind_app l1 l2 k : bind (l1 ++ l2) k = bind l1 k ++ bind l2 k.
Proof. unfold bind. apply flat_map_app. Qed.

Lemma bind_nil k : bind (@nil (event V)) k = [].
Proof. reflexivity. Qed.

Lemma bind_call id a l k : bind (ECall id a :: l) k = ECall id a :: bind l k.
Proof. reflexivity. Qed.

Lemma bind_yield v l k : bind (EYield v :: l) k = k v ++ bind l k.
Proof. reflexivity. Qed.

Lemma bind_yield1 (v : V) k : bind [EYield v] k = k v.
Proof. unfold bind; simpl. apply app_nil_r. Qed.

Lemma bind_flat_map {A} (f : A -> list (event V)) (xs : list A) k :
  bind (flat_map f xs) k = flat_map (fun x => bind (f x) k) xs.
Proof.
  induction xs as [|x xs IH]; simpl; [reflexivity|]. now rewrite bind_app, IH.
Qed.

Lemma bind_assoc l k1 k2 : bind (bind l k1) k2 = bind l (fun v => bind (k1 v) k2).
Proof.
  induction l as [|[id a|v] l IH]; [reflexivity| |].
  - rewrite !bind_call. now rewrite IH.
  - rewrite !bind_yield, bind_app. now rewrite IH.
Qed.

Lemma bind_ext l k1 k2 : (forall v, k1 v = k2 v) -> bind l k1 = bind l k2.
Proof.
  intros H. induction l as [|[id a|v] l IH]; [reflexivity| |].
  - rewrite !bind_call. now rewrite IH.
  - rewrite !bind_yield. now rewrite IH, H.
Qed.

Lemma bind_ret l : bind l (fun v => [EYield v]) = l.
Proof.
  induction l as [|[id a|v] l IH]; [reflexivity| |].
  - rewrite bind_call. now rewrite IH.
  - rewrite bind_yield. simpl. now rewrite IH.
Qed.

(** the trace of a longer chain is the trace of the shorter one continued at every yield *)
Lemma ev_app c1 c2 v : ev (c1 ++ c2) v = bind (ev c1 v) (ev c2).
Proof.
  revert v; induction c1 as [|s c1 IH]; intros v.
  - cbn [app ev]. now rewrite bind_yield1.
  - destruct s as [id f|id p|id g|id h]; cbn [app ev]; rewrite bind_call; f_equal.
    + apply IH.
    + destruct (p v); [apply IH|reflexivity].
    + rewrite bind_flat_map. apply flat_map_ext. intros a. apply IH.
    + destruct (h v); [apply IH|reflexivity].
Qed.

Lemma yields_flat_map {A} (f : A -> list (event V)) (xs : list A) :
  yields (flat_map f xs) = flat_map (fun x => yields (f x)) xs.
Proof.
  induction xs as [|x xs IH]; simpl; [reflexivity|]. now rewrite yields_app, IH.
Qed.

Lemma calls_flat_map {A} (f : A -> list (event V)) (xs : list A) :
  calls (flat_map f xs) = flat_map (fun x => calls (f x)) xs.
Proof.
  induction xs as [|x xs IH]; simpl; [reflexivity|]. now rewrite calls_app, IH.
Qed.

Lemma yields_ev c v : yields (ev c v) = out c v.
Proof.
  revert v; induction c as [|s c IH]; intros v; simpl; [reflexivity|].
  destruct s as [id f|id p|id g|id h]; simpl.
  - apply IH.
  - destruct (p v); [apply IH|reflexivity].
  - change (yields (flat_map (ev c) (g v)) = flat_map (out c) (g v)).
    rewrite yields_flat_map. apply flat_map_ext. intros a; apply IH.
  - destruct (h v); [apply IH|reflexivity].
Qed.

Lemma yields_bind l k : yields (bind l k) = flat_map (fun v => yields (k v)) (yields l).
Proof.
  induction l as [|[id a|v] l IH]; [reflexivity| |].
  - rewrite bind_call. simpl. exact IH.
  - rewrite bind_yield, yields_app, IH. reflexivity.
Qed.

Lemma out_app c1 c2 v : out (c1 ++ c2) v = flat_map (out c2) (out c1 v).
Proof.
  rewrite <- !yields_ev, ev_app, yields_bind. apply flat_map_ext. intros a. apply yields_ev.
Qed.

Lemma seq_chain_app c1 c2 input :
  seq_chain (c1 ++ c2) input = seq_chain c2 (seq_chain c1 input).
Proof.
  unfold seq_chain. induction input as [|x xs IH]; simpl; [reflexivity|].
  rewrite flat_map_app, <- IH, out_app. reflexivity.
Qed.

Lemma seq_chain_cat c i1 i2 : seq_chain c (i1 ++ i2) = seq_chain c i1 ++ seq_chain c i2.
Proof. unfold seq_chain. apply flat_map_app. Qed.

(** upto_yield *)
Lemma upto_yield_app_none l1 l2 : snd (upto_yield l1) = None ->
  upto_yield (l1 ++ l2) = (l1 ++ fst (upto_yield l2), snd (upto_yield l2)).
Proof.
  induction l1 as [|[id a|v] l1 IH]; simpl; intros H.
  - now destruct (upto_yield l2).
  - destruct (upto_yield l1) as [p o] eqn:E1. simpl in *.
    rewrite (IH H). reflexivity.
  - discriminate.
Qed.

Lemma upto_yield_none_all l : snd (upto_yield l) = None -> fst (upto_yield l) = l /\ yields l = [].
Proof.
  induction l as [|[id a|v] l IH]; simpl; intros H; auto.
  - destruct (upto_yield l) as [p o]; simpl in *. destruct (IH H) as [-> ->]. auto.
  - discriminate.
Qed.

Lemma first_yield_hd l : first_yield l = hd_error (yields l).
Proof.
  unfold first_yield. induction l as [|[id a|v] l IH]; simpl; auto.
  destruct (upto_yield l); simpl in *; auto.
Qed.

End SpecFacts.

Arguments bind : simpl never.
Arguments yields : simpl never.
Arguments calls : simpl never.
