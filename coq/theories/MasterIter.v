(** MasterIter: the end-to-end theorems for by-value iterator sources (ConIterOfIter and
    ConIterOfIterX): the runner machine of MachineIter.v with the settings of Settings.v. *)
From OrxPar Require Import Base Settings SettingsP Spec Pipeline PipelineP Machine MachineP
  Termination MachineIter MachineIterP TerminationIter Kernels KernelsP Program Master.
Set Implicit Arguments.

Section IterRun.
Variable r : Runner.
Hypothesis r_wf : runner_wf r.

Definition imrunp (srclen : nat) (ordered : bool) (stop panics : nat -> bool) (sched : list nat) : isys :=
  irun srclen (match r_input_len r with Some _ => true | None => false end) ordered stop panics
       (m_dospawn r) (m_nextc r) (iinit (m_c0 r)) sched.
Definition imrun srclen ordered stop sched := imrunp srclen ordered stop nopanic sched.

Theorem imrunp_IGInv srclen ordered stop panics sched :
  IGInv srclen stop panics (m_maxt r) (imrunp srclen ordered stop panics sched).
Proof.
  assert (H1 : forall n h, m_dospawn r n h = true -> n + 2 <= m_maxt r)
    by (intros n h; apply m_dospawn_bound; exact r_wf).
  assert (H2 : forall n h c, m_nextc r n h = Some c -> 0 < c)
    by (intros n h c; apply m_nextc_pos; exact r_wf).
  pose proof (m_maxt_pos r_wf) as H3. pose proof (m_c0_pos r_wf) as H4.
  apply irun_IGInv; auto. apply iinit_IGInv; auto.
Qed.

(** C05: the user's iterator is advanced by at most one thread at a time, in every reachable
    state of every schedule, whatever panics *)
Theorem imrun_mutual_exclusion srclen ordered stop panics sched :
  readers (iws (imrunp srclen ordered stop panics sched)) <= 1.
Proof.
  pose proof (imrunp_IGInv srclen ordered stop panics sched) as G.
  destruct (igate (imrunp srclen ordered stop panics sched)) eqn:Eg.
  - destruct (I_open G Eg). lia.
  - rewrite (I_busy G Eg). lia.
  - apply (I_closed G Eg).
Qed.

(** C02 / C05: the positions a reader receives are the true source positions *)
Theorem imrun_reader_positions srclen ordered stop panics sched w t got :
  In w (iws (imrunp srclen ordered stop panics sched)) -> iph w = IReading t got ->
  ifront (imrunp srclen ordered stop panics sched) = t + got.
Proof.
  intros Hw Hp. pose proof (I_rd (imrunp_IGInv srclen ordered stop panics sched)) as Hr.
  rewrite Forall_forall in Hr. destruct (Hr w Hw t got Hp). auto.
Qed.

Theorem imrun_outcome srclen ordered stop sched :
  iall_done (imrun srclen ordered stop sched) ->
  Outcome srclen stop (map wk (iws (imrun srclen ordered stop sched))).
Proof.
  intros Hd.
  exact (ifinal_outcome (m_maxt_pos r_wf) (imrunp_IGInv srclen ordered stop nopanic sched) Hd (fun _ => eq_refl)).
Qed.

Theorem imrun_threads srclen ordered stop panics sched :
  length (iws (imrunp srclen ordered stop panics sched)) <= m_maxt r.
Proof.
  pose proof (I_sp (imrunp_IGInv srclen ordered stop panics sched)) as H.
  destruct (isph (imrunp srclen ordered stop panics sched)); lia.
Qed.

(** the liveness invariant of the ticket / gate protocol, in every reachable state *)
Theorem imrunp_LInv srclen ordered stop panics sched :
  LInv ordered (imrunp srclen ordered stop panics sched).
Proof.
  assert (H1 : forall n h, m_dospawn r n h = true -> n + 2 <= m_maxt r)
    by (intros n h; apply m_dospawn_bound; exact r_wf).
  assert (H2 : forall n h c, m_nextc r n h = Some c -> 0 < c)
    by (intros n h c; apply m_nextc_pos; exact r_wf).
  pose proof (m_maxt_pos r_wf) as H3. pose proof (m_c0_pos r_wf) as H4.
  unfold imrunp. eapply irun_LInv; eauto.
  - apply iinit_IGInv; auto.
  - apply iinit_LInv.
Qed.

(** C10 / C14 over iterator sources: whatever happened so far (tickets taken and not yet served,
    a reader in the middle of its chunk, early exit, panics), a fair continuation completes the
    run -- the handle protocol cannot deadlock and waiting is never a livelock *)
Theorem imrunp_completes srclen ordered stop panics sched :
  iall_done (imrunp srclen ordered stop panics
               (sched ++ round_robin (m_maxt r)
                           (iphi srclen (m_maxt r) (imrunp srclen ordered stop panics sched)))).
Proof.
  assert (H1 : forall n h, m_dospawn r n h = true -> n + 2 <= m_maxt r)
    by (intros n h; apply m_dospawn_bound; exact r_wf).
  assert (H2 : forall n h c, m_nextc r n h = Some c -> 0 < c)
    by (intros n h c; apply m_nextc_pos; exact r_wf).
  pose proof (m_maxt_pos r_wf) as H3.
  unfold imrunp, MachineIter.irun. rewrite fold_left_app.
  apply iall_doneb_spec.
  eapply irr_completes; eauto.
  - apply imrunp_IGInv.
  - apply imrunp_LInv.
Qed.

(** no schedule contains more effective steps than the initial measure: waiting on the handle
    aside, the run is finite *)
Theorem imrun_effective_bounded srclen ordered stop panics sched :
  ieffective srclen (match r_input_len r with Some _ => true | None => false end) ordered stop panics
             (m_dospawn r) (m_nextc r) (iinit (m_c0 r)) sched
  <= 9 * m_maxt r + 2 + 5 * srclen.
Proof.
  assert (H1 : forall n h, m_dospawn r n h = true -> n + 2 <= m_maxt r)
    by (intros n h; apply m_dospawn_bound; exact r_wf).
  assert (H2 : forall n h c, m_nextc r n h = Some c -> 0 < c)
    by (intros n h c; apply m_nextc_pos; exact r_wf).
  pose proof (m_maxt_pos r_wf) as H3. pose proof (m_c0_pos r_wf) as H4.
  pose proof (@ieffective_bounded srclen (match r_input_len r with Some _ => true | None => false end)
                ordered stop panics (m_dospawn r) (m_nextc r) (m_maxt r) H1 H2 H3
                (iinit (m_c0 r)) sched) as B.
  assert (G0 : IGInv srclen stop panics (m_maxt r) (iinit (m_c0 r))) by (apply iinit_IGInv; auto).
  specialize (B G0).
  assert (E : iphi srclen (m_maxt r) (iinit (m_c0 r)) = 9 * m_maxt r + 2 + 5 * srclen).
  { unfold iphi. cbn. lia. }
  lia.
Qed.

(** C10 over iterator sources (the sources that can be unbounded): once the early-exit signal is
    out -- or the gate is closed for any other reason -- the rest of the run takes a number of
    effective steps that depends on the thread bound and the chunk sizes only, whatever the
    source still holds: the current reader finishes its chunk, every worker processes what it
    holds, and each leaves at its next pull *)
Theorem imrun_after_close srclen ordered stop panics sched sched2 :
  igate (imrunp srclen ordered stop panics sched) = Closed ->
  ieffective srclen (match r_input_len r with Some _ => true | None => false end) ordered stop panics
             (m_dospawn r) (m_nextc r) (imrunp srclen ordered stop panics sched) sched2
  <= 9 * m_maxt r + 3
     + sum_list (map (fun w => 6 * icsize w + 8) (iws (imrunp srclen ordered stop panics sched))).
Proof.
  intros Hc.
  assert (H1 : forall n h, m_dospawn r n h = true -> n + 2 <= m_maxt r)
    by (intros n h; apply m_dospawn_bound; exact r_wf).
  assert (H2 : forall n h c, m_nextc r n h = Some c -> 0 < c)
    by (intros n h c; apply m_nextc_pos; exact r_wf).
  pose proof (m_maxt_pos r_wf) as H3. pose proof (m_c0_pos r_wf) as H4.
  pose proof (imrunp_IGInv srclen ordered stop panics sched) as G.
  pose proof (@ieffective_after_close srclen (match r_input_len r with Some _ => true | None => false end)
                ordered stop panics (m_dospawn r) (m_nextc r) (m_maxt r) H1 H2 H3 _ sched2 G Hc) as B.
  assert (Hb : Forall (HB) (iws (imrunp srclen ordered stop panics sched))).
  { unfold imrunp. eapply irun_HB; eauto; [apply iinit_IGInv; auto|constructor]. }
  assert (P : jphi (m_maxt r) (imrunp srclen ordered stop panics sched)
              <= 9 * m_maxt r + 3
                 + sum_list (map (fun w => 6 * icsize w + 8) (iws (imrunp srclen ordered stop panics sched))))
    by (eapply jphi_bound; eauto).
  lia.
Qed.

Theorem imrun_signal_closes srclen ordered stop panics sched :
  iskipped (imrunp srclen ordered stop panics sched) = true ->
  igate (imrunp srclen ordered stop panics sched) = Closed.
Proof.
  unfold imrunp. apply irun_SkInv. intros E. discriminate E.
Qed.

Lemma ifinished_owned (l : list iworker) : (forall w, In w l -> ifinished w) ->
  Permutation (flat_map iseen l ++ flat_map iaband l) (flat_map own l).
Proof.
  induction l as [|w t IH]; intros Hfin; [reflexivity|]. cbn [flat_map].
  assert (E : own w = iseen w ++ iaband w).
  { unfold own, owned, pending, wk; cbn [ph seen aband].
    destruct (Hfin w (or_introl eq_refl)) as [-> | ->]; reflexivity. }
  rewrite E. rewrite <- IH by (intros x Hx; apply Hfin; right; auto).
  rewrite <- !app_assoc. apply Permutation_app_head.
  rewrite !app_assoc. apply Permutation_app_tail. apply Permutation_app_comm.
Qed.

(** C13 / C14 over iterator sources: for every schedule and whatever closures panic, when all
    threads have finished, every element the user's iterator has yielded was handed to exactly
    one worker and has been either processed (moved on into safe code) or abandoned (dropped
    with that worker's chunk buffer) exactly once -- never both, never twice.  What was never
    yielded is still inside the user's iterator and is dropped with it. *)
Theorem imrunp_source_accounting srclen ordered stop panics sched :
  iall_done (imrunp srclen ordered stop panics sched) ->
  Permutation (flat_map iseen (iws (imrunp srclen ordered stop panics sched))
               ++ flat_map iaband (iws (imrunp srclen ordered stop panics sched)))
              (seq 0 (ifront (imrunp srclen ordered stop panics sched)))
  /\ ifront (imrunp srclen ordered stop panics sched) <= srclen.
Proof.
  intros [_ Hfin]. pose proof (imrunp_IGInv srclen ordered stop panics sched) as G.
  split; [|apply (I_front G)].
  rewrite <- (I_perm G). apply ifinished_owned. exact Hfin.
Qed.

End IterRun.

(** ** the kernel results over an iterator source *)
Section IterMaster.
Variable V : Type.
Variables (src : list V) (ops : list (op V)) (r : Runner) (ordered : bool) (sched : list nat).
Hypothesis r_wf : runner_wf r.

Section Full.
Hypothesis Hdone : iall_done (imrun r (tlen src ops) ordered (@nostop) sched).
Let wl := map wk (iws (imrun r (tlen src ops) ordered (@nostop) sched)).
Let Hout : Outcome (tlen src ops) (@nostop) wl := imrun_outcome r_wf _ _ _ _ Hdone.

Theorem iter_collect_x : Permutation (res_colx (tpe src ops) wl) (seq_chain (stages_of ops) src).
Proof. apply gen_collect_x. exact Hout. Qed.
Theorem iter_count : res_cnt (tpe src ops) wl = length (seq_chain (stages_of ops) src).
Proof. apply gen_count. exact Hout. Qed.
Theorem iter_reduce (f : V -> V -> V) :
  (forall a b c, f (f a b) c = f a (f b c)) -> (forall a b, f a b = f b a) ->
  res_red (tpe src ops) f wl = reduce_list f (seq_chain (stages_of ops) src).
Proof. apply gen_reduce. exact Hout. Qed.
Theorem iter_collect_merge (old : list V) :
  res_col (tpe src ops) old wl = old ++ seq_chain (stages_of ops) src.
Proof. apply gen_collect_merge. exact Hout. Qed.
Theorem iter_collect_bag (old : list V) :
  (forall x, length (yields (trace (tpar src ops) x)) = 1) ->
  res_map_col (tpe src ops) old (tlen src ops) wl = Some (old ++ seq_chain (stages_of ops) src).
Proof. apply gen_collect_bag. exact Hout. Qed.
Theorem iter_calls :
  Permutation (ps_clog (build src ops) ++ flat_map (w_calls_full (tpe src ops)) wl)
              (seq_log (stages_of ops) src).
Proof. apply gen_calls. exact Hout. Qed.
End Full.

Section Find.
Hypothesis Hdone : iall_done (imrun r (tlen src ops) ordered (stop_of (tpar src ops) (tsrc src ops)) sched).
Let wl := map wk (iws (imrun r (tlen src ops) ordered (stop_of (tpar src ops) (tsrc src ops)) sched)).

Theorem iter_find : res_find (tpe src ops) wl = find_in (tpe src ops) (seq 0 (tlen src ops)).
Proof. apply gen_find. exact (imrun_outcome r_wf _ _ _ _ Hdone). Qed.
End Find.

End IterMaster.
