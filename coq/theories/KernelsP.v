(** KernelsP: every kernel's result, computed from what the workers of a completed run
    processed, equals the sequential value -- for every run outcome the machine can produce. *)
From OrxPar Require Import Base Spec Machine MachineP Kernels.
Set Implicit Arguments.

(** ** reductions *)
Section Reduce.
Variable V : Type.
Variable op : V -> V -> V.
Hypothesis op_assoc : forall a b c, op (op a b) c = op a (op b c).

Notation mr := (maybe_reduce op).

Lemma mr_assoc a b c : mr (mr a b) c = mr a (mr b c).
Proof. destruct a, b, c; cbv [maybe_reduce]; try reflexivity. now rewrite op_assoc. Qed.
Lemma mr_None_l a : mr None a = a. Proof. destruct a; reflexivity. Qed.
Lemma mr_None_r a : mr a None = a. Proof. destruct a; reflexivity. Qed.

(** the product of a list in the option monoid *)
Definition prod (l : list V) : option V := fold_right (fun x acc => mr (Some x) acc) None l.

Lemma fold_left_prod r x : Some (fold_left op r x) = mr (Some x) (prod r).
Proof.
  revert x; induction r as [|y r IH]; intros x; cbn [fold_left prod fold_right]; [reflexivity|].
  rewrite IH. rewrite <- mr_assoc. reflexivity.
Qed.

Lemma reduce_list_prod l : reduce_list op l = prod l.
Proof. destruct l as [|x r]; [reflexivity|]. cbn [reduce_list]. apply fold_left_prod. Qed.

Lemma prod_app l1 l2 : prod (l1 ++ l2) = mr (prod l1) (prod l2).
Proof.
  induction l1 as [|x l1 IH]; cbn [app prod fold_right]; [now rewrite mr_None_l|].
  fold (prod (l1 ++ l2)). fold (prod l1). now rewrite IH, mr_assoc.
Qed.

Lemma reduce_list_app l1 l2 :
  reduce_list op (l1 ++ l2) = mr (reduce_list op l1) (reduce_list op l2).
Proof. rewrite !reduce_list_prod. apply prod_app. Qed.

Lemma fold_chunks {A} (F : A -> list V) chs a0 :
  fold_left (fun acc ch => mr acc (reduce_list op (F ch))) chs a0 = mr a0 (prod (flat_map F chs)).
Proof.
  revert a0; induction chs as [|ch chs IH]; intros a0; cbn [fold_left flat_map]; [now rewrite mr_None_r|].
  rewrite IH, prod_app, reduce_list_prod, mr_assoc. reflexivity.
Qed.

Lemma combine_mr {A} (F : A -> list V) (l : list A) :
  match combine mr (map (fun a => prod (F a)) l) with Some o => o | None => None end
  = prod (flat_map F l).
Proof.
  destruct l as [|a l]; [reflexivity|]. cbn [map combine flat_map].
  generalize (F a) as l0. intros l0.
  revert l0; induction l as [|b l IH]; intros l0; cbn [map fold_left flat_map].
  - now rewrite app_nil_r.
  - rewrite <- prod_app. rewrite IH. now rewrite app_assoc.
Qed.

Hypothesis op_comm : forall a b, op a b = op b a.

Lemma mr_comm a b : mr a b = mr b a.
Proof. destruct a, b; cbv [maybe_reduce]; try reflexivity. now rewrite op_comm. Qed.

Lemma prod_perm l1 l2 : Permutation l1 l2 -> prod l1 = prod l2.
Proof.
  induction 1; cbn [prod fold_right]; auto.
  - fold (prod l). fold (prod l'). now rewrite IHPermutation.
  - rewrite <- !mr_assoc. f_equal. apply mr_comm.
  - congruence.
Qed.

End Reduce.

(** ** the k-way merge *)
Section Merge.
Variable V : Type.
Notation kv := ((nat * nat) * V)%type.

Definition klt (a b : nat * nat) : Prop := fst a < fst b \/ (fst a = fst b /\ snd a < snd b).

Lemma key_lt_spec a b : key_lt a b = true <-> klt a b.
Proof.
  unfold key_lt, klt. rewrite orb_true_iff, andb_true_iff, !Nat.ltb_lt, Nat.eqb_eq. tauto.
Qed.

Lemma klt_trans a b c : klt a b -> klt b c -> klt a c.
Proof. unfold klt. lia. Qed.
Lemma klt_irrefl a : ~ klt a a.
Proof. unfold klt. lia. Qed.
Lemma klt_total a b : klt a b \/ a = b \/ klt b a.
Proof.
  unfold klt. destruct a as [a1 a2], b as [b1 b2]; simpl.
  destruct (Nat.lt_trichotomy a1 b1) as [|[->|]]; auto.
  destruct (Nat.lt_trichotomy a2 b2) as [|[->|]]; auto.
Qed.

Definition ksorted (l : list kv) : Prop := StronglySorted (fun a b => klt (fst a) (fst b)) l.

(** two key-sorted lists with the same elements are equal *)
Lemma ksorted_perm_eq (l1 l2 : list kv) : ksorted l1 -> ksorted l2 -> Permutation l1 l2 -> l1 = l2.
Proof.
  unfold ksorted. revert l2; induction l1 as [|a l1 IH]; intros l2 H1 H2 P.
  - apply Permutation_nil in P; auto.
  - destruct l2 as [|b l2]; [apply Permutation_sym, Permutation_nil in P; discriminate|].
    inversion H1 as [|? ? S1 F1]; inversion H2 as [|? ? S2 F2]; subst.
    rewrite Forall_forall in F1, F2.
    assert (a = b).
    { assert (Ia : In a (b :: l2)) by (eapply Permutation_in; [exact P|left; auto]).
      assert (Ib : In b (a :: l1)) by (eapply Permutation_in; [apply Permutation_sym; exact P|left; auto]).
      destruct Ia as [->|Ia]; auto. destruct Ib as [->|Ib]; auto.
      specialize (F1 _ Ib). specialize (F2 _ Ia).
      exfalso. apply (@klt_irrefl (fst a)). eapply klt_trans; eauto. }
    subst. f_equal. apply IH; auto. eapply Permutation_cons_inv; eauto.
Qed.

Lemma ksorted_app (l1 l2 : list kv) :
  ksorted l1 -> ksorted l2 -> (forall x y, In x l1 -> In y l2 -> klt (fst x) (fst y)) ->
  ksorted (l1 ++ l2).
Proof.
  unfold ksorted. induction l1 as [|a l1 IH]; simpl; intros H1 H2 H; auto.
  inversion H1; subst. constructor.
  - apply IH; auto.
  - apply Forall_app; split; auto. apply Forall_forall; intros y Hy. apply H; auto.
Qed.

Lemma ksorted_app_inv (l1 l2 : list kv) :
  ksorted (l1 ++ l2) -> ksorted l1 /\ ksorted l2 /\ (forall x y, In x l1 -> In y l2 -> klt (fst x) (fst y)).
Proof.
  unfold ksorted. induction l1 as [|a l1 IH]; simpl; intros H.
  - repeat split; auto. constructor. intros ? ? [].
  - inversion H as [|? ? Hs Hf]; subst. destruct (IH Hs) as (I1 & I2 & I3).
    apply Forall_app in Hf as [F1 F2]. repeat split; auto.
    + constructor; auto.
    + intros x y [<-|Hx] Hy; [|auto]. rewrite Forall_forall in F2; auto.
Qed.

(** [pick_min] finds a head that no other head precedes *)
Lemma pick_min_spec (vs : list (list kv)) :
  match pick_min vs with
  | None => concat vs = []
  | Some (j, x) =>
      (exists v, nth_error vs j = Some (x :: v)) /\
      (forall v y r, In v vs -> v = y :: r -> ~ klt (fst y) (fst x))
  end.
Proof.
  induction vs as [|v vs IH]; simpl; [reflexivity|].
  destruct (pick_min vs) as [[j y]|].
  - destruct IH as [(vy & Hy) Hmin]. destruct v as [|x v'].
    + split; [exists vy; exact Hy|]. intros v0 y0 r [<-|Hin] E; [discriminate|]. eapply Hmin; eauto.
    + destruct (key_lt (fst y) (fst x)) eqn:E.
      * apply key_lt_spec in E. split; [exists vy; exact Hy|].
        intros v0 y0 r [<-|Hin] E0.
        -- injection E0 as <- <-. intros H. apply (@klt_irrefl (fst x)). eapply klt_trans; eauto.
        -- eapply Hmin; eauto.
      * assert (Hn : ~ klt (fst y) (fst x)) by (rewrite <- key_lt_spec; congruence).
        split; [exists v'; reflexivity|].
        intros v0 y0 r [<-|Hin] E0.
        -- injection E0 as <- <-. apply klt_irrefl.
        -- intros H. destruct (klt_total (fst y) (fst x)) as [H1|[H1|H1]]; [contradiction| |].
           ++ rewrite <- H1 in H. eapply Hmin; eauto.
           ++ eapply Hmin; [exact Hin|exact E0|]. eapply klt_trans; eauto.
  - destruct v as [|x v']; simpl; [exact IH|].
    split; [exists v'; reflexivity|].
    intros v0 y0 r [<-|Hin] E0.
    + injection E0 as <- <-. apply klt_irrefl.
    + exfalso. assert (In y0 (concat vs)) by (apply in_concat; exists v0; subst; simpl; auto).
      rewrite IH in H. exact H.
Qed.

Lemma pop_at_perm (vs : list (list kv)) j x v :
  nth_error vs j = Some (x :: v) -> Permutation (concat vs) (x :: concat (pop_at vs j)).
Proof.
  revert j; induction vs as [|v0 vs IH]; intros j H; [destruct j; discriminate|].
  destruct j as [|j]; simpl in *.
  - injection H as ->. reflexivity.
  - rewrite (IH _ H). symmetry. apply Permutation_middle.
Qed.

Lemma pop_at_sorted (vs : list (list kv)) j :
  Forall ksorted vs -> Forall ksorted (pop_at vs j).
Proof.
  revert j; induction vs as [|v0 vs IH]; intros j H; [constructor|].
  inversion H; subst. destruct j as [|j]; simpl; constructor; auto.
  destruct v0 as [|a r]; simpl; auto. inversion H2; auto.
Qed.

Lemma In_pop_at (vs : list (list kv)) j z : In z (concat (pop_at vs j)) -> In z (concat vs).
Proof.
  revert j; induction vs as [|v0 vs IH]; intros j H; [destruct j; exact H|].
  destruct j as [|j]; simpl in *; apply in_app_or in H; apply in_or_app; destruct H as [H|H]; auto.
  - left. destruct v0; simpl in *; auto.
  - right. eapply IH; eauto.
Qed.

Lemma min_head_le_all (vs : list (list kv)) (x : kv) :
  Forall ksorted vs ->
  (forall v y r, In v vs -> v = y :: r -> ~ klt (fst y) (fst x)) ->
  forall z, In z (concat vs) -> ~ klt (fst z) (fst x).
Proof.
  intros Hs Hmin z Hz. apply in_concat in Hz. destruct Hz as (v & Hv & Hz).
  rewrite Forall_forall in Hs. specialize (Hs v Hv).
  destruct v as [|y r]; [destruct Hz|].
  specialize (Hmin _ y r Hv eq_refl). destruct Hz as [<-|Hz]; auto.
  inversion Hs as [|? ? _ Hf]; subst. rewrite Forall_forall in Hf. specialize (Hf z Hz).
  intros H. apply Hmin. eapply klt_trans; eauto.
Qed.

Lemma kmerge_fuel_spec fuel (vs : list (list kv)) :
  Forall ksorted vs -> length (concat vs) <= fuel ->
  NoDup (map fst (concat vs)) ->
  Permutation (kmerge_fuel fuel vs) (concat vs) /\ ksorted (kmerge_fuel fuel vs).
Proof.
  revert vs; induction fuel as [|fuel IH]; intros vs Hs Hl Hnd.
  - destruct (concat vs); [|simpl in Hl; lia]. simpl. split; constructor.
  - simpl. pose proof (pick_min_spec vs) as Hp. destruct (pick_min vs) as [[j x]|].
    + destruct Hp as [(v & Hj) Hmin].
      pose proof (pop_at_perm _ _ Hj) as Pp.
      assert (Hl' : length (concat (pop_at vs j)) <= fuel).
      { apply Permutation_length in Pp. simpl in Pp. lia. }
      assert (Hnd' : NoDup (map fst (x :: concat (pop_at vs j)))).
      { eapply Permutation_NoDup; [|exact Hnd]. apply Permutation_map. exact Pp. }
      simpl in Hnd'. inversion Hnd' as [|? ? Hnx Hnd'']; subst.
      destruct (IH (pop_at vs j) (pop_at_sorted j Hs) Hl' Hnd'') as [P S].
      split.
      * rewrite Pp. constructor. exact P.
      * constructor; [exact S|]. apply Forall_forall. intros z Hz.
        assert (Hz' : In z (concat (pop_at vs j))) by (eapply Permutation_in; eauto).
        pose proof (min_head_le_all _ Hs Hmin z (In_pop_at _ _ _ Hz')) as Hn.
        destruct (klt_total (fst x) (fst z)) as [H1|[H1|H1]]; auto; [|contradiction].
        exfalso. apply Hnx. rewrite H1. apply in_map. exact Hz'.
    + rewrite Hp. split; constructor.
Qed.

Theorem kmerge_sorted_eq (vs : list (list kv)) (target : list kv) :
  Forall ksorted vs -> ksorted target -> Permutation (concat vs) target ->
  kmerge vs = target.
Proof.
  intros Hs Ht P. unfold kmerge.
  assert (Hnd : NoDup (map fst (concat vs))).
  { eapply Permutation_NoDup; [apply Permutation_map, Permutation_sym, P|].
    clear - Ht. induction Ht as [|a l Hs IH Hf]; simpl; constructor; auto.
    intros Hin. apply in_map_iff in Hin. destruct Hin as (b & Hb & Hin).
    rewrite Forall_forall in Hf. specialize (Hf b Hin). rewrite Hb in Hf. exact (klt_irrefl Hf). }
  destruct (@kmerge_fuel_spec (length (concat vs)) vs Hs (le_n _) Hnd) as [P1 S1].
  apply ksorted_perm_eq; auto. rewrite P1. exact P.
Qed.

End Merge.

(** ** results of a completed run *)
Section Results.
Variable V : Type.
Variable pe : nat -> list (event V).
Variable len : nat.
Variable stop : nat -> bool.
Variable wl : list worker.
Hypothesis Hout : Outcome len stop wl.

Lemma flat_map_flat_map' {A B C} (f : A -> list B) (g : B -> list C) (xs : list A) :
  flat_map g (flat_map f xs) = flat_map (fun a => flat_map g (f a)) xs.
Proof. induction xs as [|a xs IH]; simpl; [reflexivity|]. now rewrite flat_map_app, IH. Qed.

Section Full.
Hypothesis nostop_all : forall i, stop i = false.

Lemma seen_perm : Permutation (flat_map seen wl) (seq 0 len).
Proof. apply (O_full Hout nostop_all). Qed.

(** anything computed per position and concatenated per worker is a permutation of the
    sequential concatenation *)
Lemma per_position_perm {B} (F : nat -> list B) :
  Permutation (flat_map (fun w => flat_map F (seen w)) wl) (flat_map F (seq 0 len)).
Proof. rewrite <- flat_map_flat_map'. apply Permutation_flat_map. exact seen_perm. Qed.

(** C07 / C04 (kernel level) *)
Theorem res_colx_perm : Permutation (res_colx pe wl) (flat_map (vals pe) (seq 0 len)).
Proof. unfold res_colx, w_colx. apply per_position_perm. Qed.

Lemma combine_add (l : list nat) :
  match combine Nat.add l with Some n => n | None => 0 end = sum_list l.
Proof.
  destruct l as [|a l]; [reflexivity|]. cbn [combine]. unfold sum_list. cbn [fold_right].
  revert a; induction l as [|b l IH]; intros a; cbn [fold_left fold_right]; [lia|].
  rewrite IH. lia.
Qed.

Theorem res_cnt_eq : res_cnt pe wl = length (flat_map (vals pe) (seq 0 len)).
Proof.
  unfold res_cnt. rewrite combine_add.
  rewrite <- (Permutation_length res_colx_perm). unfold res_colx.
  clear. induction wl as [|w t IH]; [reflexivity|].
  cbn [map flat_map]. rewrite app_length, <- IH. reflexivity.
Qed.

(** C05 (kernel level): full terminals make exactly the sequential calls *)
Theorem calls_full_perm :
  Permutation (flat_map (w_calls_full pe) wl) (flat_map (fun i => calls (pe i)) (seq 0 len)).
Proof. unfold w_calls_full. apply per_position_perm. Qed.

(** C03 (kernel level) *)
Theorem res_red_eq (op : V -> V -> V) :
  (forall a b c, op (op a b) c = op a (op b c)) -> (forall a b, op a b = op b a) ->
  res_red pe op wl = reduce_list op (flat_map (vals pe) (seq 0 len)).
Proof.
  intros Ha Hc. unfold res_red.
  assert (Hw : forall w, In w wl -> w_red pe op w = prod op (flat_map (vals pe) (seen w))).
  { intros w Hw. unfold w_red.
    assert (E : fold_left (fun acc ch => maybe_reduce op acc (reduce_list op (flat_map (vals pe) ch)))
                  (chunk_positions w) None = prod op (flat_map (vals pe) (seen w))).
    { rewrite (@fold_chunks V op Ha). rewrite mr_None_l.
      destruct (O_full Hout nostop_all) as [_ Hp]. rewrite Forall_forall in Hp.
      rewrite (Hp w Hw). unfold chunk_positions, chunks_of.
      rewrite flat_map_flat_map'. f_equal.
      rewrite flat_map_concat_map, (flat_map_concat_map _ (pulls w)), map_map. reflexivity. }
    destruct (csize w) as [|[|c]]; auto. apply (@reduce_list_prod V op Ha). }
  rewrite (map_ext_in _ _ _ Hw).
  rewrite (@combine_mr V op Ha _ (fun w => flat_map (vals pe) (seen w))).
  rewrite (@reduce_list_prod V op Ha). apply (@prod_perm V op Ha Hc). apply per_position_perm.
Qed.

(** *** ordered collect through the k-way merge (C01 kernel level) *)
Lemma keyed_from_fst i j (l : list V) (x : (nat * nat) * V) : In x (keyed_from i j l) -> fst (fst x) = i /\ j <= snd (fst x).
Proof.
  revert j; induction l as [|v r IH]; intros j H; [destruct H|].
  destruct H as [<-|H]; simpl; [lia|]. apply IH in H. lia.
Qed.

Lemma keyed_from_sorted i j (l : list V) : ksorted (keyed_from i j l).
Proof.
  unfold ksorted. revert j; induction l as [|v r IH]; intros j; simpl; constructor; [apply IH|].
  apply Forall_forall. intros x Hx. apply keyed_from_fst in Hx. unfold klt. simpl. lia.
Qed.

Lemma map_snd_keyed_from i j (l : list V) : map snd (keyed_from i j l) = l.
Proof. revert j; induction l as [|v r IH]; intros j; simpl; [reflexivity|]. now rewrite IH. Qed.

Lemma ksorted_flat_map_keyed (l : list nat) : incr l -> ksorted (flat_map (keyed pe) l).
Proof.
  unfold incr. induction 1 as [|a l Hs IH Hf]; simpl; [constructor|].
  apply ksorted_app; auto.
  - apply keyed_from_sorted.
  - intros x y Hx Hy. apply keyed_from_fst in Hx. apply in_flat_map in Hy.
    destruct Hy as (b & Hb & Hy). apply keyed_from_fst in Hy.
    rewrite Forall_forall in Hf. specialize (Hf b Hb). unfold klt. lia.
Qed.

Theorem res_col_eq (old : list V) : res_col pe old wl = old ++ flat_map (vals pe) (seq 0 len).
Proof.
  unfold res_col. f_equal.
  rewrite (@kmerge_sorted_eq V (map (w_col pe) wl) (flat_map (keyed pe) (seq 0 len))).
  - clear. induction (seq 0 len) as [|i l IH]; simpl; [reflexivity|].
    rewrite map_app, IH. unfold keyed at 1. now rewrite map_snd_keyed_from.
  - apply Forall_forall. intros v Hv. apply in_map_iff in Hv. destruct Hv as (w & <- & Hw).
    apply ksorted_flat_map_keyed. pose proof (O_incr Hout) as Hi. rewrite Forall_forall in Hi. auto.
  - apply ksorted_flat_map_keyed. apply incr_seq.
  - rewrite <- flat_map_concat_map. unfold w_col. apply per_position_perm.
Qed.

(** *** map-only collect: positional writes into the bag (C01 / C06 kernel level) *)
Lemma lookup_app (l1 l2 : list (nat * V)) i : lookup (l1 ++ l2) i = lookup l1 i ++ lookup l2 i.
Proof.
  induction l1 as [|[j v] l1 IH]; simpl; [reflexivity|]. destruct (j =? i); simpl; now rewrite IH.
Qed.

Lemma lookup_pos off k i (l : list V) :
  lookup (map (fun v => (off + k, v)) l) (off + i) = if k =? i then l else [].
Proof.
  induction l as [|v l IH]; simpl; [destruct (k =? i); reflexivity|].
  rewrite IH. destruct (Nat.eqb_spec k i) as [->|Hne].
  - now rewrite Nat.eqb_refl.
  - destruct (Nat.eqb_spec (off + k) (off + i)); [lia|reflexivity].
Qed.

Lemma lookup_writes off (l : list nat) i : NoDup l ->
  lookup (flat_map (fun k => map (fun v => (off + k, v)) (vals pe k)) l) (off + i)
  = if in_dec Nat.eq_dec i l then vals pe i else [].
Proof.
  induction 1 as [|k l Hk Hnd IH]; simpl; [reflexivity|].
  rewrite lookup_app, lookup_pos, IH.
  destruct (Nat.eqb_spec k i) as [->|Hne].
  - destruct (Nat.eq_dec i i); [|congruence].
    destruct (in_dec Nat.eq_dec i l); [contradiction|]. now rewrite app_nil_r.
  - destruct (Nat.eq_dec k i); [congruence|]. destruct (in_dec Nat.eq_dec i l); reflexivity.
Qed.

Lemma read_bag_ok (writes : list (nat * V)) off a n :
  (forall k, a <= k < a + n -> exists v, lookup writes (off + k) = [v] /\ vals pe k = [v]) ->
  read_bag writes (off + a) n = Some (flat_map (vals pe) (seq a n)).
Proof.
  revert a; induction n as [|n IH]; intros a H; [reflexivity|].
  cbn [read_bag seq flat_map]. destruct (H a) as (v & E1 & E2); [lia|]. rewrite E1, E2.
  replace (S (off + a)) with (off + S a) by lia. rewrite IH; [reflexivity|].
  intros k Hk. apply H. lia.
Qed.

Theorem res_map_col_eq (old : list V) :
  (forall i, i < len -> length (vals pe i) = 1) ->
  res_map_col pe old len wl = Some (old ++ flat_map (vals pe) (seq 0 len)).
Proof.
  intros H1. unfold res_map_col.
  set (off := length old).
  set (G := fun k => map (fun v => (off + k, v)) (vals pe k)).
  assert (Ew : flat_map (w_writes pe off) wl = flat_map G (flat_map seen wl)).
  { unfold w_writes. now rewrite flat_map_flat_map'. }
  rewrite Ew.
  assert (Hlen : length (flat_map G (flat_map seen wl)) = len).
  { rewrite (Permutation_length (Permutation_flat_map G seen_perm)).
    transitivity (length (seq 0 len)); [|apply seq_length].
    assert (forall i, In i (seq 0 len) -> length (G i) = 1).
    { intros i Hi. apply in_seq in Hi. unfold G. rewrite map_length. apply H1. lia. }
    revert H. generalize (seq 0 len). intros l. induction l as [|i l IH]; intros H; [reflexivity|].
    cbn [flat_map]. rewrite app_length, H by (left; auto). simpl. f_equal. apply IH.
    intros j Hj. apply H. right; auto. }
  rewrite Hlen, Nat.eqb_refl.
  replace off with (off + 0) at 1 by lia.
  rewrite read_bag_ok; [reflexivity|].
  intros k Hk. unfold G. rewrite (lookup_writes off k (O_disjoint Hout)).
  destruct (in_dec Nat.eq_dec k (flat_map seen wl)) as [Hin|Hnin].
  - specialize (H1 k ltac:(lia)). destruct (vals pe k) as [|v [|? ?]]; try discriminate. exists v. auto.
  - exfalso. apply Hnin. eapply Permutation_in; [apply Permutation_sym, seen_perm|]. apply in_seq. lia.
Qed.

End Full.

(** *** short-circuit kernels (C02 kernel level) *)
Section Find.
Hypothesis stop_spec : forall i,
  stop i = match first_yield (pe i) with Some _ => true | None => false end.

Lemma find_in_none l : (forall i, In i l -> stop i = false) -> find_in pe l = None.
Proof.
  induction l as [|i l IH]; intros H; [reflexivity|]. cbn [find_in].
  pose proof (H i (or_introl eq_refl)) as Hi. rewrite stop_spec in Hi.
  destruct (first_yield (pe i)); [discriminate|]. apply IH. intros j Hj. apply H. right; auto.
Qed.

Lemma find_in_app_none l1 l2 : (forall i, In i l1 -> stop i = false) ->
  find_in pe (l1 ++ l2) = find_in pe l2.
Proof.
  induction l1 as [|i l IH]; intros H; [reflexivity|]. cbn [app find_in].
  pose proof (H i (or_introl eq_refl)) as Hi. rewrite stop_spec in Hi.
  destruct (first_yield (pe i)); [discriminate|]. apply IH. intros j Hj. apply H. right; auto.
Qed.

Lemma find_in_stop m l : stop m = true ->
  exists v, first_yield (pe m) = Some v /\ find_in pe (m :: l) = Some (m, v).
Proof.
  intros H. rewrite stop_spec in H. cbn [find_in].
  destruct (first_yield (pe m)) as [v|]; [|discriminate]. exists v. auto.
Qed.

Lemma min_by_idx_none (a b : option (nat * V)) : min_by_idx a b = None -> a = None /\ b = None.
Proof. destruct a as [[? ?]|], b as [[? ?]|]; simpl; intros H; try discriminate; auto. Qed.

(** the combination keeps an entry with the least index *)
Lemma fold_min_spec (r : list (option (nat * V))) (a : option (nat * V)) :
  let R := fold_left (@min_by_idx V) r a in
  ((forall x, In x (a :: r) -> x = None) /\ R = None) \/
  (exists i v, R = Some (i, v) /\ In (Some (i, v)) (a :: r) /\
               forall i' v', In (Some (i', v')) (a :: r) -> i <= i').
Proof.
  revert a; induction r as [|b r IH]; intros a; cbn [fold_left].
  - destruct a as [[i v]|].
    + right. exists i, v. repeat split; [left; auto|]. intros i' v' [[= <- <-]|[]]. lia.
    + left. split; [|reflexivity]. intros x [<-|[]]. reflexivity.
  - specialize (IH (min_by_idx a b)). cbv zeta in IH.
    destruct IH as [[Hall HR]|(i & v & HR & Hin & Hmin)].
    + left. split; [|exact HR]. intros x [<-|[<-|Hx]].
      * apply (min_by_idx_none a b). apply Hall. left; auto.
      * apply (min_by_idx_none a b). apply Hall. left; auto.
      * apply Hall. right; auto.
    + right. exists i, v. split; [exact HR|]. split.
      * destruct Hin as [Hin|Hin]; [|right; right; auto].
        destruct a as [[ia va]|], b as [[ib vb]|]; simpl in Hin; try discriminate; auto.
        -- destruct (ib <? ia); injection Hin as <- <-; [right; left; auto|left; auto].
        -- left; auto.
        -- right; left; auto.
      * intros i' v' Hin'.
        assert (Hm : forall j u, In (Some (j, u)) [a; b] ->
                     exists j0 u0, min_by_idx a b = Some (j0, u0) /\ j0 <= j).
        { intros j u Hj. destruct a as [[ia va]|], b as [[ib vb]|]; simpl in *.
          - destruct (Nat.ltb_spec ib ia); destruct Hj as [[= <- <-]|[[= <- <-]|[]]]; eexists _, _; split; eauto; lia.
          - destruct Hj as [[= <- <-]|[Hj|[]]]; [|discriminate]. eexists _, _; split; eauto.
          - destruct Hj as [Hj|[[= <- <-]|[]]]; [discriminate|]. eexists _, _; split; eauto.
          - destruct Hj as [Hj|[Hj|[]]]; discriminate. }
        destruct Hin' as [Hin'|[Hin'|Hin']].
        -- destruct (Hm i' v') as (j0 & u0 & E & Hle); [left; auto|].
           specialize (Hmin j0 u0 (or_introl E)). lia.
        -- destruct (Hm i' v') as (j0 & u0 & E & Hle); [right; left; auto|].
           specialize (Hmin j0 u0 (or_introl E)). lia.
        -- apply (Hmin i' v'). right; auto.
Qed.

Lemma w_find_cases w : In w wl ->
  (nostop_seen stop w /\ w_find pe w = None) \/
  (exists m v, stopped_seen stop w m /\ first_yield (pe m) = Some v /\ w_find pe w = Some (m, v)).
Proof.
  intros Hw. pose proof (O_cases Hout) as Hc. rewrite Forall_forall in Hc.
  destruct (Hc w Hw) as [Hn|(m & s0 & E1 & E2 & E3)]; unfold w_find.
  - left. split; auto. apply find_in_none. exact Hn.
  - right. rewrite E1, (@find_in_app_none s0 [m] E3).
    destruct (@find_in_stop m [] E2) as (v & Ev & Ef). exists m, v. split; [exists s0; auto|auto].
Qed.

Lemma find_in_seq_spec a n :
  ((forall i, In i (seq a n) -> stop i = false) /\ find_in pe (seq a n) = None) \/
  (exists j v, In j (seq a n) /\ stop j = true /\ (forall i, In i (seq a n) -> i < j -> stop i = false) /\
               first_yield (pe j) = Some v /\ find_in pe (seq a n) = Some (j, v)).
Proof.
  revert a; induction n as [|n IH]; intros a.
  - left. split; [intros i []|reflexivity].
  - cbn [seq]. destruct (stop a) eqn:Ea.
    + right. destruct (@find_in_stop a (seq (S a) n) Ea) as (v & Ev & Ef).
      exists a, v. repeat split; auto; [left; auto|]. intros i [<-|Hi] Hlt; [lia|].
      apply in_seq in Hi. lia.
    + destruct (IH (S a)) as [[Hall Hf]|(j & v & Hj & Hs & Hl & Hv & Hf)].
      * left. split.
        -- intros i [<-|Hi]; auto.
        -- change (a :: seq (S a) n) with ([a] ++ seq (S a) n). rewrite find_in_app_none; auto.
           intros i [<-|[]]; auto.
      * right. exists j, v. repeat split; auto; [right; auto| |].
        -- intros i [<-|Hi] Hlt; auto.
        -- change (a :: seq (S a) n) with ([a] ++ seq (S a) n). rewrite find_in_app_none; auto.
           intros i [<-|[]]; auto.
Qed.

Theorem res_find_eq : res_find pe wl = find_in pe (seq 0 len).
Proof.
  unfold res_find.
  pose proof (O_nonempty Hout) as Hne.
  assert (Hex : exists w0 t, wl = w0 :: t).
  { clear - Hne. destruct wl as [|w0 t]; [congruence|eauto]. }
  destruct Hex as (w0 & t & Ewl).
  assert (Hcomb : match combine (@min_by_idx V) (map (w_find pe) wl) with Some o => o | None => None end
                  = fold_left (@min_by_idx V) (map (w_find pe) t) (w_find pe w0)).
  { rewrite Ewl. reflexivity. }
  rewrite Hcomb.
  pose proof (fold_min_spec (map (w_find pe) t) (w_find pe w0)) as Hspec. cbv zeta in Hspec.
  assert (Hmap : w_find pe w0 :: map (w_find pe) t = map (w_find pe) wl) by (rewrite Ewl; reflexivity).
  rewrite Hmap in Hspec.
  (* a worker's reported match is a stopping position inside the source *)
  assert (Hrep : forall i u, In (Some (i, u)) (map (w_find pe) wl) ->
                 stop i = true /\ i < len /\ first_yield (pe i) = Some u).
  { intros i u Hin. apply in_map_iff in Hin. destruct Hin as (w & Ew & Hw).
    destruct (w_find_cases w Hw) as [[_ En]|(m & v & (s0 & E1 & E2 & E3) & Ev & Ef)]; [congruence|].
    rewrite Ef in Ew. injection Ew as <- <-. repeat split; auto.
    apply (O_bound Hout w m Hw). rewrite E1. apply in_or_app; right; left; auto. }
  destruct (find_in_seq_spec 0 len) as [[Hall Hf]|(j & v & Hj & Hs & Hl & Hv & Hf)]; rewrite Hf.
  - (* nothing matches *)
    destruct Hspec as [[_ HR]|(i & u & HR & Hin & _)]; [exact HR|].
    destruct (Hrep i u Hin) as (Hsi & Hil & _). rewrite Hall in Hsi; [discriminate|].
    apply in_seq. lia.
  - apply in_seq in Hj.
    assert (Hjl : j < len) by lia.
    destruct (O_find Hout Hjl Hs) as (w & m & Hw & (s0 & E1 & E2 & E3) & Hmj).
    assert (Hm : m = j).
    { destruct (Nat.eq_dec m j); auto. rewrite Hl in E2; [discriminate| |lia].
      apply in_seq. lia. }
    subst m.
    assert (Hwj : In (Some (j, v)) (map (w_find pe) wl)).
    { apply in_map_iff. exists w. split; auto.
      destruct (w_find_cases w Hw) as [[Hn _]|(m & v' & (s1 & F1 & F2 & F3) & Ev & Ef)].
      - rewrite Hn in Hs; [discriminate|]. rewrite E1. apply in_or_app; right; left; auto.
      - assert (m = j).
        { rewrite F1 in E1. apply app_inj_tail in E1. tauto. }
        subst m. rewrite Ef. congruence. }
    destruct Hspec as [[Hall _]|(i & u & HR & Hin & Hmin)].
    + specialize (Hall _ Hwj). discriminate.
    + rewrite HR. destruct (Hrep i u Hin) as (Hsi & Hil & Hu).
      specialize (Hmin j v Hwj).
      assert (i = j).
      { destruct (Nat.eq_dec i j); auto. rewrite Hl in Hsi; [discriminate| |lia]. apply in_seq. lia. }
      subst i. congruence.
Qed.

End Find.
End Results.
