(** Kernels: what the sixteen kernels of src/core compute, as functions of what each worker
    processed (its [seen] list, in order, and its pulled chunks) and of the per-position trace
    [pe i] (calls and yields the composed closures produce for source position [i]).

    Workers are in spawn order, which is the order in which [Runner::reduce] / [Runner::run_map]
    join them and combine their results on the calling thread. *)
From OrxPar Require Import Base Spec Machine.
Set Implicit Arguments.

Section Kernels.
Variable V : Type.
Variable pe : nat -> list (event V).

Definition vals (i : nat) : list V := yields (pe i).

(** core/utils.rs *)
Definition maybe_reduce (op : V -> V -> V) (a b : option V) : option V :=
  match a, b with
  | None, None => None
  | None, Some y => Some y
  | Some x, None => Some x
  | Some x, Some y => Some (op x y)
  end.

(** ** per-worker results *)

(** [*_cnt] task *)
Definition w_cnt (w : worker) : nat := length (flat_map vals (seen w)).

(** [*_col_x] task: the worker's own Vec *)
Definition w_colx (w : worker) : list V := flat_map vals (seen w).

(** [*_red] task.  Chunk size 1: one flat [Iterator::reduce] over everything the worker
    pulls.  Otherwise: per-chunk reduce, [maybe_reduce]d into the accumulator. *)
Definition chunk_positions (w : worker) : list (list nat) :=
  map (fun p => seq (fst p) (snd p)) (pulls w).
Definition w_red (op : V -> V -> V) (w : worker) : option V :=
  match csize w with
  | 1 => reduce_list op (flat_map vals (seen w))
  | _ => fold_left (fun acc ch => maybe_reduce op acc (reduce_list op (flat_map vals ch)))
                   (chunk_positions w) None
  end.

(** [*_fil_col] task: the worker's Vec of (key, value), key = (source position, position
    inside the produced iterator) -- the second component is 0 for map/filter_map pipelines *)
Fixpoint keyed_from (i j : nat) (l : list V) : list ((nat * nat) * V) :=
  match l with [] => [] | v :: r => ((i, j), v) :: keyed_from i (S j) r end.
Definition keyed (i : nat) : list ((nat * nat) * V) := keyed_from i 0 (vals i).
Definition w_col (w : worker) : list ((nat * nat) * V) := flat_map keyed (seen w).

(** [*_find] task: first match with its source position *)
Fixpoint find_in (l : list nat) : option (nat * V) :=
  match l with
  | [] => None
  | i :: r => match first_yield (pe i) with Some v => Some (i, v) | None => find_in r end
  end.
Definition w_find (w : worker) : option (nat * V) := find_in (seen w).

(** ** combination on the calling thread *)

(** [Runner::reduce]: [threads.map(join).reduce(reduce)] *)
Definition combine {A} (f : A -> A -> A) (l : list A) : option A :=
  match l with [] => None | x :: r => Some (fold_left f r x) end.

Definition res_cnt (wl : list worker) : nat :=
  match combine Nat.add (map w_cnt wl) with Some n => n | None => 0 end.

Definition res_red (op : V -> V -> V) (wl : list worker) : option V :=
  match combine (maybe_reduce op) (map (w_red op) wl) with Some o => o | None => None end.

Definition min_by_idx (a b : option (nat * V)) : option (nat * V) :=
  match a, b with
  | None, None => None
  | None, Some y => Some y
  | Some x, None => Some x
  | Some x, Some y => Some (if fst y <? fst x then y else x)
  end.
Definition res_find (wl : list worker) : option (nat * V) :=
  match combine min_by_idx (map w_find wl) with Some o => o | None => None end.

(** [Runner::run_map] + [SplitVec::append]: fragments in spawn order *)
Definition res_colx (wl : list worker) : list V := flat_map w_colx wl.

(** ** the k-way merge of [heap_sort_into_vec]: an abstract min-priority queue over the
    vectors' heads.  [pick_min] returns the vector whose head has the smallest key. *)
Definition key_lt (a b : nat * nat) : bool :=
  (fst a <? fst b) || ((fst a =? fst b) && (snd a <? snd b)).

Fixpoint pick_min (vs : list (list ((nat * nat) * V))) : option (nat * ((nat * nat) * V)) :=
  match vs with
  | [] => None
  | v :: r =>
      let rest := match pick_min r with Some (j, x) => Some (S j, x) | None => None end in
      match v with
      | [] => rest
      | x :: _ =>
          match rest with
          | Some (j, y) => if key_lt (fst y) (fst x) then Some (j, y) else Some (0, x)
          | None => Some (0, x)
          end
      end
  end.

Fixpoint pop_at (vs : list (list ((nat * nat) * V))) (j : nat) : list (list ((nat * nat) * V)) :=
  match vs, j with
  | [], _ => []
  | v :: r, 0 => tl v :: r
  | v :: r, S j' => v :: pop_at r j'
  end.

Fixpoint kmerge_fuel (fuel : nat) (vs : list (list ((nat * nat) * V))) : list ((nat * nat) * V) :=
  match fuel with
  | 0 => []
  | S f => match pick_min vs with
           | None => []
           | Some (j, x) => x :: kmerge_fuel f (pop_at vs j)
           end
  end.

Definition kmerge (vs : list (list ((nat * nat) * V))) : list ((nat * nat) * V) :=
  kmerge_fuel (length (concat vs)) vs.

(** ordered collect of the filtering kernels: merged values pushed after the target's contents *)
Definition res_col (old : list V) (wl : list worker) : list V :=
  old ++ map snd (kmerge (map w_col wl)).

(** ** [map_col]: positional writes into the ordered bag *)
Definition w_writes (offset : nat) (w : worker) : list (nat * V) :=
  flat_map (fun i => map (fun v => (offset + i, v)) (vals i)) (seen w).

(** the bag after the run: [Some v] if every position of [offset, offset + n) was written
    exactly once and nothing else was written (then [unwrap_only_if_counts_match] succeeds and
    the vector is the positional content), [None] otherwise (gaps: the unwrap panics) *)
Fixpoint lookup (l : list (nat * V)) (i : nat) : list V :=
  match l with
  | [] => []
  | (j, v) :: r => if j =? i then v :: lookup r i else lookup r i
  end.
Fixpoint read_bag (writes : list (nat * V)) (offset n : nat) : option (list V) :=
  match n with
  | 0 => Some []
  | S n' =>
      match lookup writes offset, read_bag writes (S offset) n' with
      | [v], Some r => Some (v :: r)
      | _, _ => None
      end
  end.
Definition res_map_col (old : list V) (n : nat) (wl : list worker) : option (list V) :=
  let writes := flat_map (w_writes (length old)) wl in
  if length writes =? n
  then match read_bag writes (length old) n with Some r => Some (old ++ r) | None => None end
  else None.

(** the same when the concurrent iterator had been advanced by [k] elements before [into_par()]:
    it hands out the original indices [k + i], while the bag was sized -- and is read back -- for
    the [n] elements that remain ([src/core/map_col.rs]: [offset + idx]) *)
Definition res_map_col_adv (k : nat) (old : list V) (n : nat) (wl : list worker) : option (list V) :=
  let writes := flat_map (w_writes (length old + k)) wl in
  if length writes =? n
  then match read_bag writes (length old) n with Some r => Some (old ++ r) | None => None end
  else None.

Lemma res_map_col_adv_0 old n wl : res_map_col_adv 0 old n wl = res_map_col old n wl.
Proof. unfold res_map_col_adv, res_map_col. rewrite Nat.add_0_r. reflexivity. Qed.

(** ** call logs *)
(** full terminals evaluate the whole trace of every position they process *)
Definition w_calls_full (w : worker) : list (nat * V) := flat_map (fun i => calls (pe i)) (seen w).
(** short-circuit terminals evaluate the trace of a position up to its first yield *)
Definition w_calls_find (w : worker) : list (nat * V) :=
  flat_map (fun i => calls (fst (upto_yield (pe i)))) (seen w).

End Kernels.
