
(** val negb : bool -> bool **)

let negb = function
| true -> false
| false -> true

type nat =
| O
| S of nat

(** val fst : ('a1 * 'a2) -> 'a1 **)

let fst = function
| (x, _) -> x

type comparison =
| Eq
| Lt
| Gt

type uint =
| Nil
| D0 of uint
| D1 of uint
| D2 of uint
| D3 of uint
| D4 of uint
| D5 of uint
| D6 of uint
| D7 of uint
| D8 of uint
| D9 of uint

type signed_int =
| Pos of uint
| Neg of uint

(** val revapp : uint -> uint -> uint **)

let rec revapp d d' =
  match d with
  | Nil -> d'
  | D0 d0 -> revapp d0 (D0 d')
  | D1 d0 -> revapp d0 (D1 d')
  | D2 d0 -> revapp d0 (D2 d')
  | D3 d0 -> revapp d0 (D3 d')
  | D4 d0 -> revapp d0 (D4 d')
  | D5 d0 -> revapp d0 (D5 d')
  | D6 d0 -> revapp d0 (D6 d')
  | D7 d0 -> revapp d0 (D7 d')
  | D8 d0 -> revapp d0 (D8 d')
  | D9 d0 -> revapp d0 (D9 d')

(** val rev : uint -> uint **)

let rev d =
  revapp d Nil

module Little =
 struct
  (** val double : uint -> uint **)

  let rec double = function
  | Nil -> Nil
  | D0 d0 -> D0 (double d0)
  | D1 d0 -> D2 (double d0)
  | D2 d0 -> D4 (double d0)
  | D3 d0 -> D6 (double d0)
  | D4 d0 -> D8 (double d0)
  | D5 d0 -> D0 (succ_double d0)
  | D6 d0 -> D2 (succ_double d0)
  | D7 d0 -> D4 (succ_double d0)
  | D8 d0 -> D6 (succ_double d0)
  | D9 d0 -> D8 (succ_double d0)

  (** val succ_double : uint -> uint **)

  and succ_double = function
  | Nil -> D1 Nil
  | D0 d0 -> D1 (double d0)
  | D1 d0 -> D3 (double d0)
  | D2 d0 -> D5 (double d0)
  | D3 d0 -> D7 (double d0)
  | D4 d0 -> D9 (double d0)
  | D5 d0 -> D1 (succ_double d0)
  | D6 d0 -> D3 (succ_double d0)
  | D7 d0 -> D5 (succ_double d0)
  | D8 d0 -> D7 (succ_double d0)
  | D9 d0 -> D9 (succ_double d0)
 end

type positive =
| XI of positive
| XO of positive
| XH

type n =
| N0
| Npos of positive

type z =
| Z0
| Zpos of positive
| Zneg of positive

module Pos =
 struct
  type mask =
  | IsNul
  | IsPos of positive
  | IsNeg
 end

module Coq_Pos =
 struct
  (** val succ : positive -> positive **)

  let rec succ = function
  | XI p -> XO (succ p)
  | XO p -> XI p
  | XH -> XO XH

  (** val add : positive -> positive -> positive **)

  let rec add x y =
    match x with
    | XI p ->
      (match y with
       | XI q -> XO (add_carry p q)
       | XO q -> XI (add p q)
       | XH -> XO (succ p))
    | XO p ->
      (match y with
       | XI q -> XI (add p q)
       | XO q -> XO (add p q)
       | XH -> XI p)
    | XH -> (match y with
             | XI q -> XO (succ q)
             | XO q -> XI q
             | XH -> XO XH)

  (** val add_carry : positive -> positive -> positive **)

  and add_carry x y =
    match x with
    | XI p ->
      (match y with
       | XI q -> XI (add_carry p q)
       | XO q -> XO (add_carry p q)
       | XH -> XI (succ p))
    | XO p ->
      (match y with
       | XI q -> XO (add_carry p q)
       | XO q -> XI (add p q)
       | XH -> XO (succ p))
    | XH ->
      (match y with
       | XI q -> XI (succ q)
       | XO q -> XO (succ q)
       | XH -> XI XH)

  (** val pred_double : positive -> positive **)

  let rec pred_double = function
  | XI p -> XI (XO p)
  | XO p -> XI (pred_double p)
  | XH -> XH

  type mask = Pos.mask =
  | IsNul
  | IsPos of positive
  | IsNeg

  (** val succ_double_mask : mask -> mask **)

  let succ_double_mask = function
  | IsNul -> IsPos XH
  | IsPos p -> IsPos (XI p)
  | IsNeg -> IsNeg

  (** val double_mask : mask -> mask **)

  let double_mask = function
  | IsPos p -> IsPos (XO p)
  | x0 -> x0

  (** val double_pred_mask : positive -> mask **)

  let double_pred_mask = function
  | XI p -> IsPos (XO (XO p))
  | XO p -> IsPos (XO (pred_double p))
  | XH -> IsNul

  (** val sub_mask : positive -> positive -> mask **)

  let rec sub_mask x y =
    match x with
    | XI p ->
      (match y with
       | XI q -> double_mask (sub_mask p q)
       | XO q -> succ_double_mask (sub_mask p q)
       | XH -> IsPos (XO p))
    | XO p ->
      (match y with
       | XI q -> succ_double_mask (sub_mask_carry p q)
       | XO q -> double_mask (sub_mask p q)
       | XH -> IsPos (pred_double p))
    | XH -> (match y with
             | XH -> IsNul
             | _ -> IsNeg)

  (** val sub_mask_carry : positive -> positive -> mask **)

  and sub_mask_carry x y =
    match x with
    | XI p ->
      (match y with
       | XI q -> succ_double_mask (sub_mask_carry p q)
       | XO q -> double_mask (sub_mask p q)
       | XH -> IsPos (pred_double p))
    | XO p ->
      (match y with
       | XI q -> double_mask (sub_mask_carry p q)
       | XO q -> succ_double_mask (sub_mask_carry p q)
       | XH -> double_pred_mask p)
    | XH -> IsNeg

  (** val mul : positive -> positive -> positive **)

  let rec mul x y =
    match x with
    | XI p -> add y (XO (mul p y))
    | XO p -> XO (mul p y)
    | XH -> y

  (** val iter : ('a1 -> 'a1) -> 'a1 -> positive -> 'a1 **)

  let rec iter f x = function
  | XI n' -> f (iter f (iter f x n') n')
  | XO n' -> iter f (iter f x n') n'
  | XH -> f x

  (** val compare_cont : comparison -> positive -> positive -> comparison **)

  let rec compare_cont r x y =
    match x with
    | XI p ->
      (match y with
       | XI q -> compare_cont r p q
       | XO q -> compare_cont Gt p q
       | XH -> Gt)
    | XO p ->
      (match y with
       | XI q -> compare_cont Lt p q
       | XO q -> compare_cont r p q
       | XH -> Gt)
    | XH -> (match y with
             | XH -> r
             | _ -> Lt)

  (** val compare : positive -> positive -> comparison **)

  let compare =
    compare_cont Eq

  (** val eqb : positive -> positive -> bool **)

  let rec eqb p q =
    match p with
    | XI p0 -> (match q with
                | XI q0 -> eqb p0 q0
                | _ -> false)
    | XO p0 -> (match q with
                | XO q0 -> eqb p0 q0
                | _ -> false)
    | XH -> (match q with
             | XH -> true
             | _ -> false)

  (** val of_uint_acc : uint -> positive -> positive **)

  let rec of_uint_acc d acc =
    match d with
    | Nil -> acc
    | D0 l -> of_uint_acc l (mul (XO (XI (XO XH))) acc)
    | D1 l -> of_uint_acc l (add XH (mul (XO (XI (XO XH))) acc))
    | D2 l -> of_uint_acc l (add (XO XH) (mul (XO (XI (XO XH))) acc))
    | D3 l -> of_uint_acc l (add (XI XH) (mul (XO (XI (XO XH))) acc))
    | D4 l -> of_uint_acc l (add (XO (XO XH)) (mul (XO (XI (XO XH))) acc))
    | D5 l -> of_uint_acc l (add (XI (XO XH)) (mul (XO (XI (XO XH))) acc))
    | D6 l -> of_uint_acc l (add (XO (XI XH)) (mul (XO (XI (XO XH))) acc))
    | D7 l -> of_uint_acc l (add (XI (XI XH)) (mul (XO (XI (XO XH))) acc))
    | D8 l ->
      of_uint_acc l (add (XO (XO (XO XH))) (mul (XO (XI (XO XH))) acc))
    | D9 l ->
      of_uint_acc l (add (XI (XO (XO XH))) (mul (XO (XI (XO XH))) acc))

  (** val of_uint : uint -> n **)

  let rec of_uint = function
  | Nil -> N0
  | D0 l -> of_uint l
  | D1 l -> Npos (of_uint_acc l XH)
  | D2 l -> Npos (of_uint_acc l (XO XH))
  | D3 l -> Npos (of_uint_acc l (XI XH))
  | D4 l -> Npos (of_uint_acc l (XO (XO XH)))
  | D5 l -> Npos (of_uint_acc l (XI (XO XH)))
  | D6 l -> Npos (of_uint_acc l (XO (XI XH)))
  | D7 l -> Npos (of_uint_acc l (XI (XI XH)))
  | D8 l -> Npos (of_uint_acc l (XO (XO (XO XH))))
  | D9 l -> Npos (of_uint_acc l (XI (XO (XO XH))))

  (** val to_little_uint : positive -> uint **)

  let rec to_little_uint = function
  | XI p0 -> Little.succ_double (to_little_uint p0)
  | XO p0 -> Little.double (to_little_uint p0)
  | XH -> D1 Nil

  (** val to_uint : positive -> uint **)

  let to_uint p =
    rev (to_little_uint p)
 end

module N =
 struct
  (** val succ_double : n -> n **)

  let succ_double = function
  | N0 -> Npos XH
  | Npos p -> Npos (XI p)

  (** val double : n -> n **)

  let double = function
  | N0 -> N0
  | Npos p -> Npos (XO p)

  (** val add : n -> n -> n **)

  let add n0 m =
    match n0 with
    | N0 -> m
    | Npos p -> (match m with
                 | N0 -> n0
                 | Npos q -> Npos (Coq_Pos.add p q))

  (** val sub : n -> n -> n **)

  let sub n0 m =
    match n0 with
    | N0 -> N0
    | Npos n' ->
      (match m with
       | N0 -> n0
       | Npos m' ->
         (match Coq_Pos.sub_mask n' m' with
          | Coq_Pos.IsPos p -> Npos p
          | _ -> N0))

  (** val mul : n -> n -> n **)

  let mul n0 m =
    match n0 with
    | N0 -> N0
    | Npos p -> (match m with
                 | N0 -> N0
                 | Npos q -> Npos (Coq_Pos.mul p q))

  (** val compare : n -> n -> comparison **)

  let compare n0 m =
    match n0 with
    | N0 -> (match m with
             | N0 -> Eq
             | Npos _ -> Lt)
    | Npos n' -> (match m with
                  | N0 -> Gt
                  | Npos m' -> Coq_Pos.compare n' m')

  (** val eqb : n -> n -> bool **)

  let eqb n0 m =
    match n0 with
    | N0 -> (match m with
             | N0 -> true
             | Npos _ -> false)
    | Npos p -> (match m with
                 | N0 -> false
                 | Npos q -> Coq_Pos.eqb p q)

  (** val leb : n -> n -> bool **)

  let leb x y =
    match compare x y with
    | Gt -> false
    | _ -> true

  (** val ltb : n -> n -> bool **)

  let ltb x y =
    match compare x y with
    | Lt -> true
    | _ -> false

  (** val min : n -> n -> n **)

  let min n0 n' =
    match compare n0 n' with
    | Gt -> n'
    | _ -> n0

  (** val max : n -> n -> n **)

  let max n0 n' =
    match compare n0 n' with
    | Gt -> n0
    | _ -> n'

  (** val div2 : n -> n **)

  let div2 = function
  | N0 -> N0
  | Npos p0 -> (match p0 with
                | XI p -> Npos p
                | XO p -> Npos p
                | XH -> N0)

  (** val pos_div_eucl : positive -> n -> n * n **)

  let rec pos_div_eucl a b =
    match a with
    | XI a' ->
      let (q, r) = pos_div_eucl a' b in
      let r' = succ_double r in
      if leb b r' then ((succ_double q), (sub r' b)) else ((double q), r')
    | XO a' ->
      let (q, r) = pos_div_eucl a' b in
      let r' = double r in
      if leb b r' then ((succ_double q), (sub r' b)) else ((double q), r')
    | XH ->
      (match b with
       | N0 -> (N0, (Npos XH))
       | Npos p -> (match p with
                    | XH -> ((Npos XH), N0)
                    | _ -> (N0, (Npos XH))))

  (** val div_eucl : n -> n -> n * n **)

  let div_eucl a b =
    match a with
    | N0 -> (N0, N0)
    | Npos na -> (match b with
                  | N0 -> (N0, a)
                  | Npos _ -> pos_div_eucl na b)

  (** val div : n -> n -> n **)

  let div a b =
    fst (div_eucl a b)

  (** val shiftr : n -> n -> n **)

  let shiftr a = function
  | N0 -> a
  | Npos p -> Coq_Pos.iter div2 a p

  (** val of_uint : uint -> n **)

  let of_uint =
    Coq_Pos.of_uint

  (** val to_uint : n -> uint **)

  let to_uint = function
  | N0 -> D0 Nil
  | Npos p -> Coq_Pos.to_uint p
 end

module Z =
 struct
  (** val opp : z -> z **)

  let opp = function
  | Z0 -> Z0
  | Zpos x0 -> Zneg x0
  | Zneg x0 -> Zpos x0

  (** val of_N : n -> z **)

  let of_N = function
  | N0 -> Z0
  | Npos p -> Zpos p

  (** val of_uint : uint -> z **)

  let of_uint d =
    of_N (Coq_Pos.of_uint d)

  (** val of_int : signed_int -> z **)

  let of_int = function
  | Pos d0 -> of_uint d0
  | Neg d0 -> opp (of_uint d0)

  (** val to_int : z -> signed_int **)

  let to_int = function
  | Z0 -> Pos (D0 Nil)
  | Zpos p -> Pos (Coq_Pos.to_uint p)
  | Zneg p -> Neg (Coq_Pos.to_uint p)
 end

(** val usize_max : n **)

let usize_max =
  Npos (XI (XI (XI (XI (XI (XI (XI (XI (XI (XI (XI (XI (XI (XI (XI (XI (XI
    (XI (XI (XI (XI (XI (XI (XI (XI (XI (XI (XI (XI (XI (XI (XI (XI (XI (XI
    (XI (XI (XI (XI (XI (XI (XI (XI (XI (XI (XI (XI (XI (XI (XI (XI (XI (XI
    (XI (XI (XI (XI (XI (XI (XI (XI (XI (XI
    XH)))))))))))))))))))))))))))))))))))))))))))))))))))))))))))))))

(** val cadd : n -> n -> n option **)

let cadd a b =
  if N.leb (N.add a b) usize_max then Some (N.add a b) else None

(** val cmul : n -> n -> n option **)

let cmul a b =
  if N.leb (N.mul a b) usize_max then Some (N.mul a b) else None

(** val csub : n -> n -> n option **)

let csub a b =
  if N.leb b a then Some (N.sub a b) else None

(** val cdiv : n -> n -> n option **)

let cdiv a b =
  if N.eqb b N0 then None else Some (N.div a b)

(** val sat_mul : n -> n -> n **)

let sat_mul a b =
  N.min (N.mul a b) usize_max

(** val obind : 'a1 option -> ('a1 -> 'a2 option) -> 'a2 option **)

let obind o f =
  match o with
  | Some a -> f a
  | None -> None

type numThreads =
| NTAuto
| NTMax of n

type chunkSize =
| CSAuto
| CSMin of n
| CSExact of n

type params = { p_threads : numThreads; p_chunk : chunkSize }

(** val nt_of_usize : n -> numThreads **)

let nt_of_usize n0 =
  if N.eqb n0 N0 then NTAuto else NTMax n0

(** val cs_of_usize : n -> chunkSize **)

let cs_of_usize n0 =
  if N.eqb n0 N0 then CSAuto else CSExact n0

(** val is_sequential : params -> bool **)

let is_sequential p =
  match p.p_threads with
  | NTAuto -> false
  | NTMax n0 ->
    (match n0 with
     | N0 -> false
     | Npos p0 -> (match p0 with
                   | XH -> true
                   | _ -> false))

(** val mAX_UNSET_NUM_THREADS : n **)

let mAX_UNSET_NUM_THREADS =
  Npos (XO (XO (XO XH)))

(** val calc_num_threads : n option -> n -> numThreads -> n **)

let calc_num_threads input_len avail = function
| NTAuto ->
  N.min (match input_len with
         | Some l -> l
         | None -> mAX_UNSET_NUM_THREADS) avail
| NTMax x ->
  N.min (N.min (match input_len with
                | Some l -> l
                | None -> usize_max) x) avail

type parTask =
| TCollect
| TEarlyReturn
| TReduce

type resolved =
| RMin of n
| RExact of n

(** val r_inner : resolved -> n **)

let r_inner = function
| RMin c -> c
| RExact c -> c

(** val r_is_exact : resolved -> bool **)

let r_is_exact = function
| RMin _ -> false
| RExact _ -> true

(** val validate : resolved -> resolved option **)

let validate r =
  if N.ltb N0 (r_inner r) then Some r else None

(** val iNITIAL_CHUNK_SIZE : n **)

let iNITIAL_CHUNK_SIZE =
  Npos (XO (XO (XO (XO (XO (XO (XO (XO (XO (XO (XO (XO (XO (XO (XO (XO (XO
    (XO (XO (XO XH))))))))))))))))))))

(** val dESIRED_MIN_CHUNK_SIZE : n **)

let dESIRED_MIN_CHUNK_SIZE =
  Npos (XO (XO (XO (XO (XO (XO XH))))))

(** val min_required_len : parTask -> n -> n option **)

let min_required_len task one_round_len =
  match task with
  | TEarlyReturn -> cmul one_round_len (Npos (XO (XO (XO XH))))
  | _ -> cmul one_round_len (Npos (XO (XO XH)))

(** val find_chunk_size_loop : nat -> parTask -> n -> n -> n -> n option **)

let rec find_chunk_size_loop fuel task len nthreads chunk =
  match fuel with
  | O -> None
  | S fuel' ->
    obind (cmul chunk nthreads) (fun one_round ->
      obind (min_required_len task one_round) (fun req ->
        if N.leb req len
        then Some chunk
        else if (&&) (N.leb one_round len)
                  (N.leb chunk dESIRED_MIN_CHUNK_SIZE)
             then Some chunk
             else if N.eqb chunk (Npos XH)
                  then Some chunk
                  else find_chunk_size_loop fuel' task len nthreads
                         (N.shiftr chunk (Npos XH))))

(** val find_chunk_size : parTask -> n -> n -> n option **)

let find_chunk_size task len nthreads =
  find_chunk_size_loop (S (S (S (S (S (S (S (S (S (S (S (S (S (S (S (S (S (S
    (S (S (S O))))))))))))))))))))) task len nthreads iNITIAL_CHUNK_SIZE

(** val auto_chunk_size : parTask -> n option -> n -> n option **)

let auto_chunk_size task input_len max_threads =
  match input_len with
  | Some len ->
    (match len with
     | N0 -> Some (Npos XH)
     | Npos _ -> find_chunk_size task len max_threads)
  | None -> Some (Npos XH)

(** val div_ceil : n -> n -> n option **)

let div_ceil number divider =
  obind (cdiv number divider) (fun x ->
    obind (cmul x divider) (fun xd ->
      obind (csub number xd) (fun remainder ->
        cadd x (if N.ltb N0 remainder then Npos XH else N0))))

(** val min_chunk_size : n option -> n -> n -> n option **)

let min_chunk_size input_len max_threads chunk =
  match input_len with
  | Some len ->
    (match len with
     | N0 -> Some (Npos XH)
     | Npos _ ->
       let one_round_len = sat_mul max_threads chunk in
       if N.ltb len one_round_len
       then div_ceil len max_threads
       else Some chunk)
  | None -> Some chunk

(** val calc_chunk_size :
    parTask -> n option -> n -> chunkSize -> resolved option **)

let calc_chunk_size task input_len max_threads cs =
  obind
    (match cs with
     | CSAuto ->
       obind (auto_chunk_size task input_len max_threads) (fun c -> Some
         (RMin c))
     | CSMin x ->
       obind (min_chunk_size input_len max_threads x) (fun c -> Some (RMin c))
     | CSExact x ->
       Some (RExact
         (match input_len with
          | Some len -> N.min x (N.max len (Npos XH))
          | None -> x))) validate

type runner = { r_input_len : n option; r_max_threads : n; r_chunk : resolved }

(** val r_max_threads : runner -> n **)

let r_max_threads r =
  r.r_max_threads

(** val runner_new : params -> parTask -> n option -> n -> runner option **)

let runner_new params0 task input_len avail =
  let max_threads =
    N.max (calc_num_threads input_len avail params0.p_threads) (Npos XH)
  in
  obind (calc_chunk_size task input_len max_threads params0.p_chunk)
    (fun chunk -> Some { r_input_len = input_len; r_max_threads =
    max_threads; r_chunk = chunk })

type hasMore = n option

(** val hm_is_no : hasMore -> bool **)

let hm_is_no = function
| Some n0 -> (match n0 with
              | N0 -> true
              | Npos _ -> false)
| None -> false

(** val do_spawn : runner -> n -> hasMore -> bool option **)

let do_spawn r num_spawned h =
  obind (csub r.r_max_threads (Npos XH)) (fun m1 ->
    if N.leb m1 num_spawned then Some false else Some (negb (hm_is_no h)))

(** val next_chunk_size_unknown_len : runner -> n -> n option option **)

let next_chunk_size_unknown_len r num_spawned =
  obind (csub r.r_max_threads (Npos XH)) (fun m1 ->
    if N.leb m1 num_spawned
    then Some None
    else Some (Some (r_inner r.r_chunk)))

(** val next_chunk_size_known_len : runner -> n -> n -> n option option **)

let next_chunk_size_known_len r num_spawned remaining_len =
  obind (csub r.r_max_threads (Npos XH)) (fun m1 ->
    if N.leb m1 num_spawned
    then Some None
    else (match r.r_chunk with
          | RMin x ->
            if N.eqb num_spawned N0
            then Some (Some x)
            else let len =
                   match r.r_input_len with
                   | Some l -> l
                   | None -> usize_max
                 in
                 obind (csub len remaining_len) (fun done0 ->
                   obind (cdiv done0 num_spawned) (fun done_per_thread ->
                     obind (cdiv done_per_thread x) (fun q ->
                       let num_chunks_per_thread =
                         N.max (N.max q (Npos XH)) (Npos XH)
                       in
                       obind (cmul num_chunks_per_thread x) (fun c -> Some
                         (Some c)))))
          | RExact x -> Some (Some x)))

(** val next_chunk_size : runner -> n -> hasMore -> n option option **)

let next_chunk_size r num_spawned = function
| Some remaining ->
  (match remaining with
   | N0 -> Some None
   | Npos _ -> next_chunk_size_known_len r num_spawned remaining)
| None -> next_chunk_size_unknown_len r num_spawned

(** val n_to_uint : n -> uint **)

let n_to_uint =
  N.to_uint

(** val n_of_uint : uint -> n **)

let n_of_uint =
  N.of_uint

(** val z_to_int : z -> signed_int **)

let z_to_int =
  Z.to_int

(** val z_of_int : signed_int -> z **)

let z_of_int =
  Z.of_int
