
val negb : bool -> bool

type nat =
| O
| S of nat

val fst : ('a1 * 'a2) -> 'a1

type comparison =
| Eq
| Lt
| Gt

type uint =
| Nil
| D0 of uint
| D1 of uint
| D2 of uint
| D3 of uint
| D4 of uint
| D5 of uint
| D6 of uint
| D7 of uint
| D8 of uint
| D9 of uint

type signed_int =
| Pos of uint
| Neg of uint

val revapp : uint -> uint -> uint

val rev : uint -> uint

module Little :
 sig
  val double : uint -> uint

  val succ_double : uint -> uint
 end

type positive =
| XI of positive
| XO of positive
| XH

type n =
| N0
| Npos of positive

type z =
| Z0
| Zpos of positive
| Zneg of positive

module Pos :
 sig
  type mask =
  | IsNul
  | IsPos of positive
  | IsNeg
 end

module Coq_Pos :
 sig
  val succ : positive -> positive

  val add : positive -> positive -> positive

  val add_carry : positive -> positive -> positive

  val pred_double : positive -> positive

  type mask = Pos.mask =
  | IsNul
  | IsPos of positive
  | IsNeg

  val succ_double_mask : mask -> mask

  val double_mask : mask -> mask

  val double_pred_mask : positive -> mask

  val sub_mask : positive -> positive -> mask

  val sub_mask_carry : positive -> positive -> mask

  val mul : positive -> positive -> positive

  val iter : ('a1 -> 'a1) -> 'a1 -> positive -> 'a1

  val compare_cont : comparison -> positive -> positive -> comparison

  val compare : positive -> positive -> comparison

  val eqb : positive -> positive -> bool

  val of_uint_acc : uint -> positive -> positive

  val of_uint : uint -> n

  val to_little_uint : positive -> uint

  val to_uint : positive -> uint
 end

module N :
 sig
  val succ_double : n -> n

  val double : n -> n

  val add : n -> n -> n

  val sub : n -> n -> n

  val mul : n -> n -> n

  val compare : n -> n -> comparison

  val eqb : n -> n -> bool

  val leb : n -> n -> bool

  val ltb : n -> n -> bool

  val min : n -> n -> n

  val max : n -> n -> n

  val div2 : n -> n

  val pos_div_eucl : positive -> n -> n * n

  val div_eucl : n -> n -> n * n

  val div : n -> n -> n

  val shiftr : n -> n -> n

  val of_uint : uint -> n

  val to_uint : n -> uint
 end

module Z :
 sig
  val opp : z -> z

  val of_N : n -> z

  val of_uint : uint -> z

  val of_int : signed_int -> z

  val to_int : z -> signed_int
 end

val usize_max : n

val cadd : n -> n -> n option

val cmul : n -> n -> n option

val csub : n -> n -> n option

val cdiv : n -> n -> n option

val sat_mul : n -> n -> n

val obind : 'a1 option -> ('a1 -> 'a2 option) -> 'a2 option

type numThreads =
| NTAuto
| NTMax of n

type chunkSize =
| CSAuto
| CSMin of n
| CSExact of n

type params = { p_threads : numThreads; p_chunk : chunkSize }

val nt_of_usize : n -> numThreads

val cs_of_usize : n -> chunkSize

val is_sequential : params -> bool

val mAX_UNSET_NUM_THREADS : n

val calc_num_threads : n option -> n -> numThreads -> n

type parTask =
| TCollect
| TEarlyReturn
| TReduce

type resolved =
| RMin of n
| RExact of n

val r_inner : resolved -> n

val r_is_exact : resolved -> bool

val validate : resolved -> resolved option

val iNITIAL_CHUNK_SIZE : n

val dESIRED_MIN_CHUNK_SIZE : n

val min_required_len : parTask -> n -> n option

val find_chunk_size_loop : nat -> parTask -> n -> n -> n -> n option

val find_chunk_size : parTask -> n -> n -> n option

val auto_chunk_size : parTask -> n option -> n -> n option

val div_ceil : n -> n -> n option

val min_chunk_size : n option -> n -> n -> n option

val calc_chunk_size : parTask -> n option -> n -> chunkSize -> resolved option

type runner = { r_input_len : n option; r_max_threads : n; r_chunk : resolved }

val r_max_threads : runner -> n

val runner_new : params -> parTask -> n option -> n -> runner option

type hasMore = n option

val hm_is_no : hasMore -> bool

val do_spawn : runner -> n -> hasMore -> bool option

val next_chunk_size_unknown_len : runner -> n -> n option option

val next_chunk_size_known_len : runner -> n -> n -> n option option

val next_chunk_size : runner -> n -> hasMore -> n option option

val n_to_uint : n -> uint

val n_of_uint : uint -> n

val z_to_int : z -> signed_int

val z_of_int : signed_int -> z
