"""K7: source conversions.  Every par()/into_par() of the crate -- Vec, array, slice, range, the std
collections by reference and by value (in wrapped / popped / removed-from states), maps with pair
items, concurrent iterators (fresh and advanced), the cloning view, par().cloned()/copied(), plain
iterators -- through a few pipelines and terminals under six parameter settings, compared in the
harness with the collection's own sequential iterator under the same std adaptors: the sequence the
model takes as "the source"."""
import json
import os
import subprocess

from vlib import CACHE, ENV, ensure_harness, harness_hash, repo_hash

TERM_PROP = {"map.collect_vec": "C01", "filter.collect_vec": "C01", "collect_vec": "C01",
             "flat_map.collect_x": "C07", "filter.count": "C04", "count": "C04", "reduce": "C03",
             "find": "C02", "first": "C02",
             # extras: tied extrema of items ordered by key only (sequential mode = std), defaults of a
             # computation built on a worker thread, parameters across cloned()/copied()
             "seq.max": "C09", "seq.min": "C09", "seq.min_by_key": "C09",
             "fallible.collect_vec": "C05", "fallible.collect_x": "C05", "fallible.count": "C05",
             "fallible.reduce": "C05", "fallible.filter.collect_vec": "C05",
             "flat_map.long": "C01",
             "params.default": "C12", "params.copied": "C12", "params.cloned": "C12", "params.kept": "C12"}


def run_k7(tier, seed):
    os.makedirs(CACHE, exist_ok=True)
    key = "k7-%s-%s-%s-%d" % (repo_hash(), harness_hash(), tier, seed)
    cpath = os.path.join(CACHE, key + ".json")
    if os.path.exists(cpath) and not os.environ.get("VERIF_NOCACHE"):
        with open(cpath) as f:
            return json.load(f)
    bins = ensure_harness(["k7"])
    lens = [0, 1, 2, 3, 5, 8, 13, 40] if tier == "quick" else [0, 1, 2, 3, 4, 5, 7, 8, 13, 21, 40, 100, 257]
    reps = 3 if tier == "quick" else 25
    lines = []
    for k in range(reps):
        for n in lens:
            lines.append("seed=%d n=%d" % (seed * 1000 + k * 37 + n, n))
    import k3
    # one process per input line would be slow; the watched runner expects one output line per case,
    # so the harness is run per line here only after a failure of the whole batch
    res = {"total": 0, "conversions": 0, "mismatch": {}, "errors": [], "lines": len(lines)}
    try:
        p = subprocess.run([bins["k7"]], input="\n".join(lines) + "\n", stdout=subprocess.PIPE, stderr=subprocess.PIPE,
                           text=True, errors="replace", env=ENV, timeout=600 if tier == "quick" else 3000)
        stdout, rc, stderr = p.stdout, p.returncode, p.stderr
    except subprocess.TimeoutExpired as e:
        stdout = e.stdout if isinstance(e.stdout, str) else (e.stdout or b"").decode("utf-8", "replace")
        rc, stderr = 124, "time limit: a conversion does not return"
    if rc != 0:
        res["errors"].append("k7 harness: rc=%d %s" % (rc, stderr[-300:]))
    done = 0
    for line in stdout.split("\n"):
        if line.startswith("seed="):
            f = dict(t.split("=") for t in line.split())
            res["conversions"] = int(f["conversions"])
            res["total"] += int(f["conversions"]) * 9 * 6 + int(f.get("extras", "0"))
        elif line.startswith("MISMATCH"):
            term = [t for t in line.split() if t.startswith("term=")][0][5:]
            prop = TERM_PROP.get(term, "C01")
            res["mismatch"].setdefault(prop, [])
            if len(res["mismatch"][prop]) < 20:
                res["mismatch"][prop].append(line[:600])
        elif line == "END":
            done += 1
    if done != len(lines) and not res["errors"]:
        res["errors"].append("k7 harness stopped after %d of %d lines: %s" % (done, len(lines), stderr[-300:]))
    with open(cpath, "w") as f:
        json.dump(res, f)
    return res
