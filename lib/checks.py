"""Per-property checks. Each check = Coq obligations + the correspondences its theorems rest on
+ the property's direct oracle (used to find a failing input when an obligation or a
correspondence no longer checks)."""
import json
import os
import sys
import traceback

import vlib
from vlib import BuildError, Report

TRUSTED_BASE = [
    "Coq 8.16.1 kernel (coqc, full .vo build; vm_compute used in Examples/refutation witnesses; no native_compute)",
    "axioms: none (Print Assumptions under every property theorem must say 'Closed under the global context')",
    "extraction: ExtrOcamlBasic only (bool, option, list, prod, unit, sumbool mapped to OCaml types); no Extract Constant; nat/N/Z/positive stay inductive; OCaml 4.13.1; hand-written driver (parsing/printing)",
    "hand-written Gallina model of orx-parallel (src/par, src/core) and of the dependency behaviour it rests on (orx-concurrent-iter source state machines, ordered bag, priority queue, SplitVec/FixedVec/Vec as sequences, std::thread::scope/join) - tied to /repo by the correspondence runs of this check, on the inputs/schedules those explore only",
    "sequentially consistent interleaving of atomic operations (DESIGN.md 2.4)",
    "Rust harness (generated programs, instrumentation closures, deterministic scheduler), the verif-hooks patch, Python orchestration",
]

ASSUMPTIONS = [
    "closures are pure and total except for the logging/panicking instrumentation the harness adds",
    "model faithfulness is checked by differential runs, not proved",
]


def all_harness_bins():
    bins = ["k1"]
    for b in ("k3", "k5", "k6"):
        if os.path.exists(os.path.join(vlib.HARNESS, "src", "bin", b + ".rs")):
            bins.append(b)
    return bins


# ------------------------------------------------------------------ Coq part

def coq_part(rep, prop):
    """Builds the development, re-checks Properties/<prop>.v. Returns True if all obligations hold."""
    try:
        vlib.ensure_coq()
        names, assum, examples, _ = vlib.property_theorems(prop)
    except BuildError as e:
        rep.obligations.append("build:" + e.what)
        rep.violation("Coq obligation no longer checks: %s" % e.what,
                      {"failing_input_found": False, "theorem_or_correspondence": e.what,
                       "log_tail": e.log[-3000:]})
        return False
    ok = True
    for n in names:
        rep.obligations.append(n)
        a = assum.get(n)
        if a is None:
            rep.notes.append("no Print Assumptions for %s" % n)
            rep.discharged.append(n)
            continue
        rep.assumptions[n] = a if a else ["Closed under the global context"]
        if a:
            ok = False
            rep.violation("theorem %s depends on assumptions: %s" % (n, "; ".join(a)),
                          {"failing_input_found": False, "theorem_or_correspondence": n, "assumptions": a})
        else:
            rep.discharged.append(n)
    for e in examples:
        rep.obligations.append(e)
        rep.discharged.append(e)
    if rep.tier == "thorough":
        try:
            out = vlib.coqchk(prop)
            ax = [l.strip() for l in out.split("\n") if l.strip()]
            rep.notes.append("coqchk: " + " | ".join(ax[-8:]))
            if "Axioms: <none>" not in out.replace("* ", ""):
                ok = False
                rep.violation("coqchk reports axioms for Properties/%s" % prop,
                              {"failing_input_found": False, "theorem_or_correspondence": "coqchk", "report": out[-2000:]})
        except BuildError as e:
            ok = False
            rep.violation("coqchk: %s" % e.what, {"failing_input_found": False, "theorem_or_correspondence": "coqchk",
                                                  "log_tail": e.log[-2000:]})
    return ok


def corr_failure(rep, name, mismatches, failing, describe):
    """A correspondence broke. `failing` = oracle-failing inputs among the runs (may be empty)."""
    if failing:
        for f in failing[:3]:
            rep.violation("%s: %s" % (name, describe(f)),
                          {"failing_input_found": True, "correspondence": name, "input": f})
    else:
        rep.violation("correspondence %s no longer checks (%d mismatches) but no run fails the property's oracle"
                      % (name, len(mismatches)),
                      {"failing_input_found": False, "theorem_or_correspondence": name,
                       "mismatches": mismatches[:10]})


# ------------------------------------------------------------------ C11 / C15: settings

def k1_part(rep, tier, seed, only=None):
    import k1
    res = k1.run_k1(tier, seed)
    rep.correspondences.append("K1 settings arithmetic (runner_new, do_spawn, next_chunk_size) impl vs Settings.v")
    mism = [m for m in res["mismatches"] if only is None or m[0].split()[1] in only]
    rep.evaluations += res["total"]
    rep.traces += res["total"]
    rep.k1_nontrivial = res["nontrivial"]
    for k, v in res["dist"].items():
        rep.count("k1_" + k, v)
    rep.count("k1_impl_panics", res["panics"])
    for s in res["samples"][:4]:
        rep.sample({"k1": s})
    return res, mism


def check_C11(rep, tier, seed):
    import k1
    coq_part(rep, "C11")
    res, mism = k1_part(rep, tier, seed, only={"e"})
    n, bad = k1.exact_oracle(tier, seed)
    rep.count("c11_exact_oracle_cases", n)
    for e in res["errors"]:
        rep.violation("K1 could not run: " + e, {"failing_input_found": False, "theorem_or_correspondence": "K1"})
    if bad:
        for ln, o, why in bad[:3]:
            rep.violation("Exact chunk size not kept: case `%s` -> `%s` (%s)" % (ln, o, why),
                          {"failing_input_found": True, "correspondence": "K1/exact-oracle",
                           "input": {"k1_case": ln, "impl": o, "why": why,
                                     "format": "nt cskind c len avail task num_spawned has_more -> max_threads chunk exact do_spawn next_chunk"}})
    elif mism:
        corr_failure(rep, "K1(exact)", mism, [], str)
    extra = more_C11(rep, tier, seed)
    return extra


def check_C15(rep, tier, seed):
    coq_part(rep, "C15")
    res, mism = k1_part(rep, tier, seed)
    for e in res["errors"]:
        rep.violation("K1 could not run: " + e, {"failing_input_found": False, "theorem_or_correspondence": "K1"})
    # oracle: the implementation must not panic on any in-bounds configuration
    panics = [p for p in res.get("panic_samples", [])]
    if panics:
        for ln in panics[:3]:
            rep.violation("settings arithmetic panics on `%s`" % ln,
                          {"failing_input_found": True, "correspondence": "K1/no-panic-oracle",
                           "input": {"k1_case": ln,
                                     "format": "nt cskind c len avail task num_spawned has_more"}})
    elif mism:
        corr_failure(rep, "K1", mism, [], str)
    more_C15(rep, tier, seed)
    alloc_probe(rep)


def alloc_probe(rep):
    """the known finding of C15, replayed in a child process whose address space is limited: an
    unknown-length source, a buffered pull and an astronomically large chunk size make
    BufferIter::new ask for chunk_size slots; the allocation fails and the process aborts.
    Any other abort / hang of these probes is a violation."""
    import subprocess
    import gen_harness
    from vlib import ENV, ensure_harness
    gen_harness.main()
    bins = ensure_harness(["k3"])
    probes = [("iteru_F", "N:2;C:1099511627776;Fa;C:1099511627776;N:2", "cv", True),
              ("iteru_X", "N:3;C:4398046511104;X:1:0;C:4398046511104;N:3", "cnt", True),
              ("iterx_F", "N:2;C:1099511627776;Fa;C:1099511627776;N:2", "cv", False),     # known length: clamped
              ("vec_F", "N:2;C:1099511627776;Fa;C:1099511627776;N:2", "cv", False)]
    seen = 0
    for shape, ops, term, expect_abort in probes:
        case = "id=1 shape=%s known=%d in=1,2,3,4,5,6 ops=%s term=%s avail=16 sched=- fuel=1000" % (
            shape, 0 if shape.startswith("iteru") else 1, ops, term)
        try:
            p = subprocess.run(["sh", "-c", "ulimit -v 4000000; exec \"$0\"", bins["k3"]], input=case + "\n",
                               stdout=subprocess.PIPE, stderr=subprocess.PIPE, text=True, errors="replace", env=ENV, timeout=120)
            rc, out, err = p.returncode, p.stdout, p.stderr
        except subprocess.TimeoutExpired:
            rc, out, err = 124, "", "timeout"
        rep.evaluations += 1
        aborted = rc in (134, -6) and "memory allocation of" in err
        if aborted and expect_abort:
            seen += 1
        elif aborted or rc != 0:
            rep.violation("a computation with a huge chunk size aborts or hangs outside the known class (unknown-length source with a buffered pull)",
                          {"failing_input_found": True, "correspondence": "alloc-probe", "input": {"case": case, "rc": rc, "stderr": err[-300:]}})
    if seen:
        for f in vlib.load_findings()["findings"]:
            if f["property"] == "C15" and f["key"].startswith("unknown-length-iterator.buffered-pull"):
                rep.known.append("%s [%d probes in a child process with a 4 GB address-space limit: 'memory allocation of 2^44 bytes failed', SIGABRT]"
                                 % (f["what"], seen))



# ------------------------------------------------------------------ K3-based properties

def k3_part(rep, tier, seed):
    import k3
    res = k3.run_k3(tier, seed)
    rep.correspondences.append("K3 whole computations: real crate (free-running threads) vs extracted model "
                               "(seeded schedule): result, params, type, construction-time calls, call multisets")
    rep.evaluations += res["total"]
    rep.traces += res["total"]
    rep.k3_nontrivial = res["nontrivial"]
    for k, v in res["dist"].items():
        rep.count("k3_" + k, v)
    for s in res["samples"][:3]:
        rep.sample({"k3": s})
    for e in res["errors"]:
        rep.violation("K3 could not run: " + e, {"failing_input_found": False, "theorem_or_correspondence": "K3"})
    return res


def k3_select(res, kinds, pred=lambda m: True):
    out = []
    for k in kinds:
        for m in res["mismatch"].get(k, []):
            if pred(m):
                out.append((k, m))
    return out


def report_k3(rep, prop, res, direct, indirect, oracle_keys):
    """direct: mismatches that are themselves failing inputs (observable value differs from the
    sequential specification); indirect: correspondence breaks; oracle_keys: direct oracles."""
    fails = []
    for key in oracle_keys:
        for o in res["oracle"].get(key, []):
            fails.append(("oracle " + o["what"], {"case": o["case"], "observed": o["observed"]}))
    for kind, m in direct:
        fails.append(("%s differs from the sequential specification" % kind,
                      {"case": m["case"], "implementation": m["impl"], "specification(model)": m["model"]}))
    if fails:
        for what, inp in fails[:3]:
            rep.violation(what, {"failing_input_found": True, "correspondence": "K3", "input": inp,
                                 "replay_hint": "./bin/check %s --replay <this file>" % prop})
        rep.count("k3_failing_inputs", len(fails))
    elif indirect:
        corr_failure(rep, "K3(%s)" % ",".join(sorted(set(k for k, _ in indirect))),
                     [m for _, m in indirect], [], str)


def k7_part(rep, prop, tier, seed):
    """source conversions against the collection's own sequential iterator (direct oracle)"""
    import k7
    res = k7.run_k7(tier, seed)
    rep.correspondences.append("K7 source conversions: every par()/into_par() (std collections by reference and by value incl. "
                               "wrapped / popped states, maps, concurrent iterators, views, plain iterators) x 9 pipelines x 6 "
                               "settings vs the collection's own sequential iterator")
    rep.evaluations += res["total"]
    rep.count("k7_conversions", res["conversions"])
    for e in res["errors"]:
        rep.violation("K7 could not run: " + e, {"failing_input_found": False, "theorem_or_correspondence": "K7"})
    for m in res["mismatch"].get(prop, [])[:3]:
        rep.violation("a source conversion yields something else than the collection's sequential iterator",
                      {"failing_input_found": True, "correspondence": "K7", "input": m})


def make_result_check(prop, terms, extra_kinds=(), oracle_keys=(), seq=None, with_k1=False):
    def check(rep, tier, seed):
        coq_part(rep, prop)
        res = k3_part(rep, tier, seed)
        if prop in ("C01", "C02", "C03", "C04", "C07"):
            k7_part(rep, prop, tier, seed)

        def pred(m):
            if terms is not None and m.get("term") not in terms:
                return False
            if seq is not None and bool(m.get("seq")) != seq:
                return False
            return True
        direct = k3_select(res, ["result", "run"], pred)
        indirect = k3_select(res, list(extra_kinds), pred)
        report_k3(rep, prop, res, direct, indirect, list(oracle_keys))
        if seq is None:
            _, d4, i4 = k4_part(rep, tier, seed, ["result", "run"], terms)
            report_k4(rep, prop, d4, [], "")
        if with_k1:
            r1, mism = k1_part(rep, tier, seed)
            if mism:
                corr_failure(rep, "K1", mism, [], str)
        if prop == "C02" and res["known"].get("C02_pre_seq_index", 0) > 0:
            for f in vlib.load_findings()["findings"]:
                if f["property"] == "C02" and f["key"] == "pre-advanced-con-iter.sequential.index":
                    rep.known.append("%s [%d runs, e.g. %s]" % (f["what"], res["known"]["C02_pre_seq_index"],
                                                              res["known"].get("C02_pre_seq_index_sample", "")[:240]))
                    break
            else:
                rep.violation("sequential *_with_index over a pre-advanced concurrent iterator reports a position that is not the one in the original source, and the known-findings file does not list it",
                              {"failing_input_found": True, "correspondence": "K3",
                               "input": res["known"].get("C02_pre_seq_index_sample", "")})
        if prop == "C01" and res["known"].get("C01_pre_map_col", 0) > 0:
            for f in vlib.load_findings()["findings"]:
                if f["property"] == "C01" and f["key"] == "pre-advanced-con-iter.map.collect":
                    rep.known.append("%s [%d runs, e.g. %s]" % (f["what"], res["known"]["C01_pre_map_col"],
                                                              res["known"].get("C01_pre_map_col_sample", "")[:200]))
                    break
            else:
                rep.violation("parallel map-only collect over a pre-advanced concurrent iterator panics and the known-findings file does not list it",
                              {"failing_input_found": True, "correspondence": "K3",
                               "input": res["known"].get("C01_pre_map_col_sample", "")})
    return check


check_C01 = make_result_check("C01", {"cv", "cs", "ci"})
check_C02 = make_result_check("C02", {"find", "findix", "first", "firstix", "any", "all"})
check_C03 = make_result_check("C03", {"red", "sum", "min", "max", "fold", "minby", "maxby", "minkey", "maxkey"})
check_C04 = make_result_check("C04", {"cnt", "fe"}, extra_kinds=("calls",), oracle_keys=())
check_C06 = make_result_check("C06", {"ci"})
check_C07 = make_result_check("C07", {"cx"})


def check_C05(rep, tier, seed):
    coq_part(rep, "C05")
    res = k3_part(rep, tier, seed)
    k7_part(rep, "C05", tier, seed)
    indirect = k3_select(res, ["calls", "clog"])
    report_k3(rep, "C05", res, [], indirect, ["C05"])
    _, d4, i4 = k4_part(rep, tier, seed, ["calls", "seen"])
    report_k4(rep, "C05", [], [x for x in i4 if x[0] == "calls"], "closure call multiset differs from the sequential chain's",
              lambda kind, m: kind == "calls")


def check_C09(rep, tier, seed):
    coq_part(rep, "C09")
    res = k3_part(rep, tier, seed)
    k7_part(rep, "C09", tier, seed)
    direct = k3_select(res, ["result", "run", "seq_order", "clog_order", "seq_tie"], lambda m: bool(m.get("seq")))
    report_k3(rep, "C09", res, direct, [], [])
    if res["known"].get("C09_max_tie", 0) > 0:
        for f in vlib.load_findings()["findings"]:
            if f["property"] == "C09":
                rep.known.append("%s [%d runs, e.g. %s]" % (f["what"], res["known"]["C09_max_tie"],
                                                          res["known"].get("C09_max_tie_sample", "")[:200]))


def check_C12(rep, tier, seed):
    coq_part(rep, "C12")
    res = k3_part(rep, tier, seed)
    k7_part(rep, "C12", tier, seed)
    direct = k3_select(res, ["params", "is_sequential"])
    indirect = k3_select(res, ["kind"])
    report_k3(rep, "C12", res, direct, indirect, [])


def check_C08(rep, tier, seed):
    coq_part(rep, "C08")
    res = k3_part(rep, tier, seed)
    report_k3(rep, "C08", res, [], [], ["C08"])
    r4, d4, i4 = k4_part(rep, tier, seed, ["spawned"])
    report_k4(rep, "C08", [], i4, "more than n workers spawned", c08_failing)
    r1, mism = k1_part(rep, tier, seed)
    if mism:
        corr_failure(rep, "K1", mism, [], str)
    known = vlib.load_findings()
    if res["known"].get("C08", 0) > 0:
        for f in known["findings"]:
            if f["property"] == "C08":
                rep.known.append("%s [%d runs, e.g. %s]" % (f["what"], res["known"]["C08"],
                                                          res["known"].get("C08_sample", "")[:160]))


def check_C16(rep, tier, seed):
    coq_part(rep, "C16")
    res = k3_part(rep, tier, seed)
    known = vlib.load_findings()
    known_sites = {f["key"] for f in known["findings"] if f["property"] == "C16"}
    seen = res["known"].get("C16_sites", {})
    fails = []
    for site, n in sorted(seen.items()):
        if site in known_sites:
            what = [f["what"] for f in known["findings"] if f["property"] == "C16" and f["key"] == site][0]
            rep.known.append("%s [%s, observed in %d runs]" % (what, site, n))
        else:
            fails.append(site)
    # closures ran during construction where the model (= the known list) says nothing runs
    bad = [m for _, m in k3_select(res, ["clog"]) if m["model"] == "-" and m["impl"] != "-"]
    for m in bad[:3]:
        rep.violation("user closure ran while the computation was being built, outside the known eager sites",
                      {"failing_input_found": True, "correspondence": "K3/clog",
                       "input": {"case": m["case"], "construction_time_calls": m["impl"]}})
    for site in fails[:3]:
        rep.violation("eager site %s is not in the known-findings list" % site,
                      {"failing_input_found": True, "correspondence": "K3/sites", "input": {"site": site}})
    # source elements consumed while building; the terminal's run under the parameters last set
    direct = 0
    for o in res["oracle"].get("C16", [])[:3]:
        direct += 1
        rep.violation("oracle " + o["what"], {"failing_input_found": True, "correspondence": "K3",
                                              "input": {"case": o["case"], "observed": o["observed"]}})
    # the terminal's run differs from Runner::new of the parameters last set / what is consumed while
    # building differs from the model: the correspondence the C16 theorems rest on is broken
    ind = [m for _, m in k3_select(res, ["runner", "consumed", "seqpar"])]
    if ind and not direct and not bad and not fails:
        corr_failure(rep, "K3(%s)" % ",".join(sorted(set(k for k, _ in k3_select(res, ["runner", "consumed", "seqpar"])))), ind, [], str)
        direct += 1
    other = [m for _, m in k3_select(res, ["clog"]) if not (m["model"] == "-" and m["impl"] != "-")]
    if other and not bad and not fails and not direct:
        corr_failure(rep, "K3(clog)", other, [], str)


def more_C11(rep, tier, seed):
    res = k3_part(rep, tier, seed)
    report_k3(rep, "C11", res, [], [], ["C11"])
    r4, d4, i4 = k4_part(rep, tier, seed, ["chunks", "seen"])
    # direct oracle on the replays: with Exact(c) every pull of every worker is c elements
    # (fewer only for the pull that reaches the end): consecutive positions per worker in blocks of c
    report_k4(rep, "C11", [], i4, "Exact chunk size not kept", c11_failing)


def more_C15(rep, tier, seed):
    res = k3_part(rep, tier, seed)
    direct = k3_select(res, ["result", "run"], lambda m: not m.get("seq"))
    report_k3(rep, "C15", res, direct, [], ["C15"])


def check_C10(rep, tier, seed):
    import k10
    coq_part(rep, "C10")
    res = k10.run_k10(tier, seed)
    rep.correspondences.append("K10 short-circuit terminals on an endless by-value iterator source: termination (timeout), "
                               "value vs model on a finite prefix, source consumption (exact in sequential mode, bounded in parallel mode)")
    rep.evaluations += res["total"]
    rep.traces += res["total"]
    rep.k10_nontrivial = res["nontrivial"]
    for k, v in res["dist"].items():
        rep.count("k10_" + k, v)
    for s in res["samples"][:3]:
        rep.sample({"k10": s})
    for e in res["errors"]:
        rep.violation("K10 could not run: " + e, {"failing_input_found": False, "theorem_or_correspondence": "K10"})
    for f in res["fail"][:3]:
        rep.violation(f["what"], {"failing_input_found": True, "correspondence": "K10", "input": f})
    if not res["fail"] and res["mismatch"]:
        for m in res["mismatch"][:3]:
            rep.violation("find on an endless source returns a value different from the first match",
                          {"failing_input_found": True, "correspondence": "K10", "input": m})
    # under chosen schedules: which worker processed which positions once a match was published; a run
    # that processes more than the model's early exit allows is a failing input
    finds_ = {"find", "findix", "first", "firstix", "any", "all"}
    _, d4, i4 = k4_part(rep, tier, seed, ["seen", "chunks", "calls"])
    i4 = [(k, m) for (k, m) in i4 if m.get("term") in finds_]

    def c10_failing(kind, m):
        if kind != "seen":
            return False
        import json as _j
        try:
            a, b = _j.loads(m["impl"]), _j.loads(m["model"])
        except ValueError:
            return False
        return sum(len(x) for x in a) > sum(len(x) for x in b)
    report_k4(rep, "C10", [], i4, "after a match was published more source positions were processed than early exit allows", c10_failing)
    # finite sources, sequential mode: no call beyond the first match (exact call order)
    r3 = k3_part(rep, tier, seed)
    finds = {"find", "findix", "first", "firstix", "any", "all"}
    direct = k3_select(r3, ["seq_order"], lambda m: m.get("term") in finds)
    report_k3(rep, "C10", r3, direct, [], [])


def k4_part(rep, tier, seed, kinds, terms=None, panics=False):
    """K4 mismatches of the given kinds (restricted to the given terminals for 'result'); the cases
    with an injected panic belong to C14 only"""
    import k4
    res = k4.run_k4(tier, seed)
    rep.correspondences.append("K4 deterministic scheduler: real threads serialised under adversarial pick lists vs the model's "
                               "macro-schedule: spawn sequence, chunk sizes, worker->positions map, every closure call, result")
    rep.evaluations += res["total"]
    rep.traces += res["total"] - res["inconclusive"]
    rep.k4_nontrivial = res["nontrivial"]
    for k, v in res["dist"].items():
        rep.count("k4_" + k, v)
    rep.count("k4_inconclusive", res["inconclusive"])
    for s in res["samples"][:2]:
        rep.sample({"k4": s})
    for e in res["errors"]:
        rep.violation("K4 could not run: " + e, {"failing_input_found": False, "theorem_or_correspondence": "K4"})
    direct, indirect = [], []
    for kind in kinds:
        for m in res["mismatch"].get(kind, []):
            if str(m.get("style", "")).startswith("panic_") != panics:
                continue
            if kind in ("result", "run"):
                if terms is None or m.get("term") in terms:
                    direct.append((kind, m))
            else:
                indirect.append((kind, m))
    return res, direct, indirect


def report_k4(rep, prop, direct, indirect, what_indirect, is_failing=lambda kind, m: False):
    """direct: the observable value differs from the specification (a failing input).
    indirect: the run left the model's behaviour; it is a failing input only if [is_failing]
    says the property's own oracle fails on it, otherwise the correspondence is reported broken."""
    if direct:
        for kind, m in direct[:3]:
            rep.violation("under a chosen schedule (%s) the %s differs from the sequential specification" % (m.get("style"), kind),
                          {"failing_input_found": True, "correspondence": "K4", "input": m})
        return
    failing = [(k, m) for (k, m) in indirect if is_failing(k, m)]
    if failing:
        for kind, m in failing[:2]:
            rep.violation("%s: %s under schedule style %s" % (what_indirect, kind, m.get("style")),
                          {"failing_input_found": True, "correspondence": "K4/" + kind, "input": m})
    elif indirect:
        kind, m = indirect[0]
        rep.violation("correspondence K4/%s no longer checks (%d cases, e.g. style %s) but no replay fails the property's oracle"
                      % (kind, len(indirect), m.get("style")),
                      {"failing_input_found": False, "theorem_or_correspondence": "K4/" + kind,
                       "mismatches": [mm for _, mm in indirect[:5]]})


def _case_fields(m):
    import k3
    return k3.fields(m["case"])


def c11_failing(kind, m):
    """Exact(c): every worker must be handed c (clamped to the length); pulls are blocks of c"""
    f = _case_fields(m)
    ops = f["ops"].split(";")
    import k3 as _k3
    cs = _k3.settings_of(ops)[3]
    if not cs.startswith("C:") or cs == "C:0":
        return False
    c = int(cs[2:])
    n = 0 if f["in"] == "-" else len(f["in"].split(","))
    want = min(c, max(n, 1))
    if kind == "chunks":
        return any(int(x) != want for x in m["impl"].split(",") if x not in ("", "-"))
    if kind == "seen":
        import json as _j
        for seen in _j.loads(m["impl"]):
            # consecutive runs of positions must be whole blocks of `want` (or reach the end)
            i = 0
            while i < len(seen):
                j = i
                while j + 1 < len(seen) and seen[j + 1] == seen[j] + 1:
                    j += 1
                ln = j - i + 1
                if ln % want != 0 and seen[j] != n - 1 and f["term"].split(":")[0] not in ("find", "findix", "first", "firstix", "any", "all"):
                    return True
                i = j + 1
        return False
    return False


def c08_failing(kind, m):
    f = _case_fields(m)
    ops = f["ops"].split(";")
    import k3 as _k3
    nt = _k3.settings_of(ops)[2]
    try:
        return nt >= 1 and int(m["impl"]) > nt
    except ValueError:
        return False


def k6_part(rep, tier, seed):
    import k6
    res = k6.run_k6(tier, seed)
    rep.correspondences.append("K6 canary items through owning sources, in child processes: per-item drop counts, bad-drop "
                               "detector, value vs model; with and without an injected closure panic")
    rep.evaluations += res["total"]
    rep.traces += res["total"]
    rep.k6_nontrivial = res["nontrivial"] + res["panic_cases"]
    for k, v in res["dist"].items():
        rep.count("k6_" + k, v)
    rep.count("k6_panic_cases", res["panic_cases"])
    rep.count("k6_items_leaked_on_panic(allowed)", res["leaked_on_panic"])
    for s in res["samples"][:4]:
        rep.sample({"k6": s})
    for e in res["errors"]:
        rep.violation("K6 could not run: " + e, {"failing_input_found": False, "theorem_or_correspondence": "K6"})
    return res


def check_C13(rep, tier, seed):
    coq_part(rep, "C13")
    res = k6_part(rep, tier, seed)
    for f in res["c13"][:3]:
        rep.violation(f["what"], {"failing_input_found": True, "correspondence": "K6", "input": f})
    mm = [m for m in res["mismatch"] if "panic=" not in m["case"]]
    if not res["c13"] and mm:
        for m in mm[:3]:
            rep.violation("value returned over canary items differs from the specification",
                          {"failing_input_found": True, "correspondence": "K6", "input": m})


def check_C14(rep, tier, seed):
    coq_part(rep, "C14")
    res = k6_part(rep, tier, seed)
    for f in res["c14"][:3]:
        rep.violation(f["what"], {"failing_input_found": True, "correspondence": "K6", "input": f})
    mm = [m for m in res["mismatch"] if "panic=" in m["case"]]
    if not res["c14"] and mm:
        corr_failure(rep, "K6(panic outcome)", mm, [], str)
    # under chosen schedules: the panicking position is processed while another worker has published
    # (or is about to publish) a match / keeps producing results -- the call must panic
    _, d4, i4 = k4_part(rep, tier, seed, ["result", "run", "calls", "seen"], None, panics=True)
    for kind, m in d4[:3]:
        rep.violation("under a chosen schedule (%s) a chain closure panicked on a processed element but the call did not panic (or the model says otherwise)" % m.get("style"),
                      {"failing_input_found": True, "correspondence": "K4", "input": m})
    if i4 and not d4:
        corr_failure(rep, "K4(panic: %s)" % ",".join(sorted(set(k for k, _ in i4))), [m for _, m in i4], [], str)


CHECKS = {
    "C13": check_C13,
    "C14": check_C14,
    "C10": check_C10,
    "C01": check_C01, "C02": check_C02, "C03": check_C03, "C04": check_C04, "C05": check_C05,
    "C06": check_C06, "C07": check_C07, "C08": check_C08, "C09": check_C09,
    "C11": check_C11, "C12": check_C12, "C15": check_C15, "C16": check_C16,
}
LEVEL_TEXT = {}


def main(prop, tier, seed, replay):
    if prop not in CHECKS:
        print("no check for %s" % prop)
        return 2
    if replay:
        import replay as rp
        try:
            return rp.main(prop, replay)
        except BuildError as e:
            print("build failed: %s\n%s" % (e.what, e.log[-2000:]))
            return 1
    rep = Report(prop, tier, seed)
    rep.k1_nontrivial = 0
    rep.k3_nontrivial = 0
    rep.k10_nontrivial = 0
    rep.k6_nontrivial = 0
    rep.k4_nontrivial = 0
    if replay:
        rep.notes.append("replay of %s: the check re-runs the recorded case first" % replay)
        os.environ["VERIF_REPLAY"] = replay
    try:
        CHECKS[prop](rep, tier, seed)
    except BuildError as e:
        rep.violation("build failed: %s" % e.what,
                      {"failing_input_found": False, "theorem_or_correspondence": e.what, "log_tail": e.log[-4000:]})
    except Exception:
        rep.violation("check crashed", {"failing_input_found": False,
                                        "theorem_or_correspondence": "check machinery",
                                        "traceback": traceback.format_exc()[-4000:]})
    for i in range(rep.k1_nontrivial):
        rep.nontrivial.add(("k1", i))
    for i in range(rep.k3_nontrivial):
        rep.nontrivial.add(("k3", i))
    for i in range(rep.k10_nontrivial):
        rep.nontrivial.add(("k10", i))
    for i in range(rep.k6_nontrivial):
        rep.nontrivial.add(("k6", i))
    for i in range(rep.k4_nontrivial):
        rep.nontrivial.add(("k4", i))
    return rep.finish(
        level_text=LEVEL_TEXT.get(prop, "theorems over the Coq model + correspondence runs against /repo"),
        trusted_base=TRUSTED_BASE,
        rule="cases are generated by the correspondence generators of lib/ (dense grids + seeded random, VERIF_SEED); "
             "a case is non-trivial when the implementation takes a non-degenerate path (see input_distribution)",
        checker_cmd="cd /verif/coq && make -j16 && coqc -Q theories OrxPar theories/Properties/%s.v" % prop,
        assumptions=ASSUMPTIONS,
    )
