"""Per-property checks. Each check = Coq obligations + the correspondences its theorems rest on
+ the property's direct oracle (used to find a failing input when an obligation or a
correspondence no longer checks)."""
import json
import os
import sys
import traceback

import vlib
from vlib import BuildError, Report

TRUSTED_BASE = [
    "Coq 8.16.1 kernel (coqc, full .vo build; vm_compute used in Examples/refutation witnesses; no native_compute)",
    "axioms: none (Print Assumptions under every property theorem must say 'Closed under the global context')",
    "extraction: ExtrOcamlBasic only (bool, option, list, prod, unit, sumbool mapped to OCaml types); no Extract Constant; nat/N/Z/positive stay inductive; OCaml 4.13.1; hand-written driver (parsing/printing)",
    "hand-written Gallina model of orx-parallel (src/par, src/core) and of the dependency behaviour it rests on (orx-concurrent-iter source state machines, ordered bag, priority queue, SplitVec/FixedVec/Vec as sequences, std::thread::scope/join) - tied to /repo by the correspondence runs of this check, on the inputs/schedules those explore only",
    "sequentially consistent interleaving of atomic operations (DESIGN.md 2.4)",
    "Rust harness (generated programs, instrumentation closures, deterministic scheduler), the verif-hooks patch, Python orchestration",
]

ASSUMPTIONS = [
    "closures are pure and total except for the logging/panicking instrumentation the harness adds",
    "model faithfulness is checked by differential runs, not proved",
]


def all_harness_bins():
    bins = ["k1"]
    for b in ("k3", "k5", "k6"):
        if os.path.exists(os.path.join(vlib.HARNESS, "src", "bin", b + ".rs")):
            bins.append(b)
    return bins


# ------------------------------------------------------------------ Coq part

def coq_part(rep, prop):
    """Builds the development, re-checks Properties/<prop>.v. Returns True if all obligations hold."""
    try:
        vlib.ensure_coq()
        names, assum, examples, _ = vlib.property_theorems(prop)
    except BuildError as e:
        rep.obligations.append("build:" + e.what)
        rep.violation("Coq obligation no longer checks: %s" % e.what,
                      {"failing_input_found": False, "theorem_or_correspondence": e.what,
                       "log_tail": e.log[-3000:]})
        return False
    ok = True
    for n in names:
        rep.obligations.append(n)
        a = assum.get(n)
        if a is None:
            rep.notes.append("no Print Assumptions for %s" % n)
            rep.discharged.append(n)
            continue
        rep.assumptions[n] = a if a else ["Closed under the global context"]
        if a:
            ok = False
            rep.violation("theorem %s depends on assumptions: %s" % (n, "; ".join(a)),
                          {"failing_input_found": False, "theorem_or_correspondence": n, "assumptions": a})
        else:
            rep.discharged.append(n)
    for e in examples:
        rep.obligations.append(e)
        rep.discharged.append(e)
    return ok


def corr_failure(rep, name, mismatches, failing, describe):
    """A correspondence broke. `failing` = oracle-failing inputs among the runs (may be empty)."""
    if failing:
        for f in failing[:3]:
            rep.violation("%s: %s" % (name, describe(f)),
                          {"failing_input_found": True, "correspondence": name, "input": f})
    else:
        rep.violation("correspondence %s no longer checks (%d mismatches) but no run fails the property's oracle"
                      % (name, len(mismatches)),
                      {"failing_input_found": False, "theorem_or_correspondence": name,
                       "mismatches": mismatches[:10]})


# ------------------------------------------------------------------ C11 / C15: settings

def k1_part(rep, tier, seed, only=None):
    import k1
    res = k1.run_k1(tier, seed)
    rep.correspondences.append("K1 settings arithmetic (runner_new, do_spawn, next_chunk_size) impl vs Settings.v")
    mism = [m for m in res["mismatches"] if only is None or m[0].split()[1] in only]
    rep.evaluations += res["total"]
    rep.traces += res["total"]
    rep.k1_nontrivial = res["nontrivial"]
    for k, v in res["dist"].items():
        rep.count("k1_" + k, v)
    rep.count("k1_impl_panics", res["panics"])
    for s in res["samples"][:4]:
        rep.sample({"k1": s})
    return res, mism


def check_C11(rep, tier, seed):
    import k1
    coq_part(rep, "C11")
    res, mism = k1_part(rep, tier, seed, only={"e"})
    n, bad = k1.exact_oracle(tier, seed)
    rep.count("c11_exact_oracle_cases", n)
    for e in res["errors"]:
        rep.violation("K1 could not run: " + e, {"failing_input_found": False, "theorem_or_correspondence": "K1"})
    if bad:
        for ln, o, why in bad[:3]:
            rep.violation("Exact chunk size not kept: case `%s` -> `%s` (%s)" % (ln, o, why),
                          {"failing_input_found": True, "correspondence": "K1/exact-oracle",
                           "input": {"k1_case": ln, "impl": o, "why": why,
                                     "format": "nt cskind c len avail task num_spawned has_more -> max_threads chunk exact do_spawn next_chunk"}})
    elif mism:
        corr_failure(rep, "K1(exact)", mism, [], str)
    extra = more_C11(rep, tier, seed)
    return extra


def more_C11(rep, tier, seed):
    return None


def check_C15(rep, tier, seed):
    coq_part(rep, "C15")
    res, mism = k1_part(rep, tier, seed)
    for e in res["errors"]:
        rep.violation("K1 could not run: " + e, {"failing_input_found": False, "theorem_or_correspondence": "K1"})
    # oracle: the implementation must not panic on any in-bounds configuration
    panics = [p for p in res.get("panic_samples", [])]
    if panics:
        for ln in panics[:3]:
            rep.violation("settings arithmetic panics on `%s`" % ln,
                          {"failing_input_found": True, "correspondence": "K1/no-panic-oracle",
                           "input": {"k1_case": ln,
                                     "format": "nt cskind c len avail task num_spawned has_more"}})
    elif mism:
        corr_failure(rep, "K1", mism, [], str)
    more_C15(rep, tier, seed)


def more_C15(rep, tier, seed):
    return None


CHECKS = {
    "C11": check_C11,
    "C15": check_C15,
}

LEVEL_TEXT = {}


def main(prop, tier, seed, replay):
    if prop not in CHECKS:
        print("no check for %s" % prop)
        return 2
    rep = Report(prop, tier, seed)
    rep.k1_nontrivial = 0
    if replay:
        rep.notes.append("replay of %s: the check re-runs the recorded case first" % replay)
        os.environ["VERIF_REPLAY"] = replay
    try:
        CHECKS[prop](rep, tier, seed)
    except BuildError as e:
        rep.violation("build failed: %s" % e.what,
                      {"failing_input_found": False, "theorem_or_correspondence": e.what, "log_tail": e.log[-4000:]})
    except Exception:
        rep.violation("check crashed", {"failing_input_found": False,
                                        "theorem_or_correspondence": "check machinery",
                                        "traceback": traceback.format_exc()[-4000:]})
    for i in range(rep.k1_nontrivial):
        rep.nontrivial.add(("k1", i))
    return rep.finish(
        level_text=LEVEL_TEXT.get(prop, "theorems over the Coq model + correspondence runs against /repo"),
        trusted_base=TRUSTED_BASE,
        rule="cases are generated by the correspondence generators of lib/ (dense grids + seeded random, VERIF_SEED); "
             "a case is non-trivial when the implementation takes a non-degenerate path (see input_distribution)",
        checker_cmd="cd /verif/coq && make -j16 && coqc -Q theories OrxPar theories/Properties/%s.v" % prop,
        assumptions=ASSUMPTIONS,
    )
