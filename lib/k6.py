"""K6: ownership.  The same generated computations over canary items (every creation and
every drop is recorded; an item has a magic word and a heap allocation) through owning sources.
Without a panic: the value equals the model's and, once the result has been dropped, every
item ever created has been dropped exactly once.  With an injected panic in a chain closure:
the call panics (never a value, a hang or an abort), nothing is dropped twice and no
never-initialised memory is dropped; leaks are allowed and counted."""
import json
import os
import random
import subprocess

import gen_harness
import k3
from vlib import CACHE, DRIVER, ENV, ensure_harness, harness_hash, model_hash, repo_hash

FULL_TERMS = ["cv", "cs", "cx", "ci", "cnt", "fe", "red"]
FIND_TERMS = ["find", "first", "any", "all"]


def gen_case(r, cid, source, chain, n=None, term=None, nt=None, cs=None):
    if n is None:
        n = r.choice([0, 1, 2, 3, 5, 8, 13, 21, 34, 40, 120])
    inp = [r.randrange(-20, 41) for _ in range(n)]
    stages = []
    for s in chain:
        stages.append({"M": r.choice(k3.MAPS), "F": r.choice(k3.FILS), "X": r.choice(k3.FLATS), "O": r.choice(k3.FMS)}[s](r))
    if nt is None:
        nt = r.choice([0, 1, 2, 3, 4, 8])
    if cs is None:
        cs = r.choice([("C", 0), ("C", 1), ("C", 2), ("C", 5), ("Cm", 1), ("Cm", 3), ("C", 64)])
    if term is None:
        term = r.choice(FULL_TERMS + FIND_TERMS)
    if term.startswith("ci:"):
        old = [r.randrange(0, 50) for _ in range(r.choice([0, 2, 5]))]
        term = "%s:%s" % (term, "/".join(map(str, old)) if old else "-")
    elif term == "red":
        term = "red:" + r.choice(["add", "xor", "min", "max"])
    elif term == "ci":
        old = [r.randrange(0, 50) for _ in range(r.choice([0, 1, 3, 9]))]
        term = "ci:%s:%s" % (r.choice("vsfgw"), "/".join(map(str, old)) if old else "-")
    elif term in ("find", "any", "all"):
        term = term + ":" + k3.rnd_filf(r)
    ops = ["N:%d" % nt, "%s:%d" % cs] + stages + ["%s:%d" % cs, "N:%d" % nt]
    known = 1 if gen_harness.TOK_SOURCES[source][2] else 0
    sched = [r.randrange(0, 6) for _ in range(r.choice([0, 5, 20]))]
    return "id=%d shape=%s known=%d in=%s ops=%s term=%s avail=%d sched=%s fuel=100000" % (
        cid, gen_harness.shape_name(source, chain), known, ",".join(map(str, inp)) if inp else "-",
        ";".join(ops), term, k3.AVAIL, ",".join(map(str, sched)) if sched else "-")


def run_isolated(binpath, lines, batch=40, tmo_batch=600, tmo_single=60, max_timeouts=None):
    """runs the canary harness in child processes; a batch that dies or hangs is re-run case by case;
    after [max_timeouts] single-case timeouts the remaining cases are skipped (the hang is established)"""
    out = [None] * len(lines)
    n_tmo = 0
    for b in range(0, len(lines), batch):
        chunk = lines[b:b + batch]
        if max_timeouts is not None and n_tmo >= max_timeouts:
            for k in range(len(chunk)):
                out[b + k] = "<skipped>"
            continue
        try:
            p = subprocess.run([binpath, "tok"], input="\n".join(chunk) + "\n", stdout=subprocess.PIPE,
                               stderr=subprocess.PIPE, text=True, errors="replace", env=ENV, timeout=tmo_batch)
            got = p.stdout.split("\n")[:-1]
            if p.returncode == 0 and len(got) == len(chunk):
                for k, g in enumerate(got):
                    out[b + k] = g
                continue
        except subprocess.TimeoutExpired:
            pass
        for k, line in enumerate(chunk):
            try:
                q = subprocess.run([binpath, "tok"], input=line + "\n", stdout=subprocess.PIPE,
                                   stderr=subprocess.PIPE, text=True, errors="replace", env=ENV, timeout=tmo_single)
                g = q.stdout.split("\n")[:-1]
                if q.returncode != 0 or not g:
                    out[b + k] = "<crash rc=%s %s>" % (q.returncode, q.stderr[-200:].replace("\n", " "))
                else:
                    out[b + k] = g[0]
            except subprocess.TimeoutExpired:
                out[b + k] = "<timeout>"
                n_tmo += 1
                if max_timeouts is not None and n_tmo >= max_timeouts:
                    for k2 in range(k + 1, len(chunk)):
                        out[b + k2] = "<skipped>"
                    break
    return out


def run_k6(tier, seed):
    os.makedirs(CACHE, exist_ok=True)
    key = "k6-%s-%s-%s-%s-%d" % (repo_hash(), model_hash(), harness_hash(), tier, seed)
    cpath = os.path.join(CACHE, key + ".json")
    if os.path.exists(cpath) and not os.environ.get("VERIF_NOCACHE"):
        with open(cpath) as f:
            return json.load(f)
    gen_harness.main()
    bins = ensure_harness(["k3"])
    r = random.Random(seed * 101 + 7)
    per_shape = 8 if tier == "quick" else 150
    cases = []
    cid = 0
    for (src, ch) in gen_harness.tok_shapes():
        for _ in range(per_shape):
            cases.append(gen_case(r, cid, src, ch))
            cid += 1
        # corner grid: every collecting / reducing terminal on tiny inputs (single worker, fewer
        # elements than threads) and on an input long enough for two workers to interleave
        for term in ["cv", "cs", "cx", "ci:v", "ci:s", "ci:f", "ci:g", "ci:w", "cnt", "red", "find", "first"]:
            for (n, nt, cs) in [(1, 2, ("C", 1)), (1, 0, ("C", 0)), (2, 4, ("Cm", 1)), (40, 2, ("C", 1)), (33, 3, ("C", 2))]:
                if tier == "quick" and (cid % 2) and n > 2:
                    cid += 1
                    continue
                cases.append(gen_case(r, cid, src, ch, n=n, term=term, nt=nt, cs=cs))
                cid += 1
    # chunks of a thousand and more elements through the collecting terminals (bulk paths)
    for (src, ch) in gen_harness.tok_shapes():
        if ch not in ("F", "MF", "OF", "M", "XF"):
            continue
        for term in ["cx", "cv", "cs", "ci:v", "cnt"]:
            for cs in ([("C", 1024)] if tier == "quick" else [("C", 1024), ("Cm", 512), ("C", 2048)]):
                cases.append(gen_case(r, cid, src, ch, n=2300, term=term, nt=2, cs=cs))
                cid += 1
    res = {"total": 0, "c13": [], "c14": [], "mismatch": [], "dist": {}, "samples": [], "errors": [],
           "nontrivial": 0, "panic_cases": 0, "leaked_on_panic": 0}
    # --- no panic: model value + calls (used to choose where to inject panics)
    rc, model, err = k3.parallel_run(DRIVER, ["k3"], cases, shards=16)
    if rc != 0:
        res["errors"].append("model driver failed: " + err[-300:])
    impl = run_isolated(bins["k3"], cases)
    pcases = []
    for c, a, m in zip(cases, impl, model):
        res["total"] += 1
        cf, mf = k3.fields(c), k3.fields(m)
        term = cf["term"].split(":")[0]
        res["dist"]["term_" + term] = res["dist"].get("term_" + term, 0) + 1
        if a is None or a.startswith("<"):
            res["c13"].append({"case": c, "what": "process aborted / hung without any panic injected", "observed": a})
            continue
        af = k3.fields(a)
        if af.get("res") == "unsupported":
            continue
        if af.get("res") != mf.get("res"):
            res["mismatch"].append({"case": c, "impl": af.get("res"), "model": mf.get("res")})
        created, once = int(af["created"]), int(af["once"])
        leaked, multi, bad = int(af["leaked"]), int(af["multi"]), int(af["bad"])
        if leaked or multi or bad:
            res["c13"].append({"case": c, "what": "items not dropped exactly once on a non-panicking path",
                               "created": created, "dropped_once": once, "leaked": leaked,
                               "dropped_more_than_once": multi, "bad_drops": bad})
        if created > 2:
            res["nontrivial"] += 1
        if len(res["samples"]) < 3 and created > 10:
            res["samples"].append({"case": c, "impl": a[:200]})
        # panic variants: a call that certainly happens
        calls = []
        for key in ("clog", "calls"):
            if mf.get(key, "-") != "-":
                calls += mf[key].split(",")
        if calls:
            for _ in range(2 if tier == "quick" else 4):
                st, arg = r.choice(calls).split(":")
                pcases.append((c + " panic=%s:%s" % (st, arg), term))
    # --- injected panics
    plines = [p[0] for p in pcases]
    rc, pmodel, err = k3.parallel_run(DRIVER, ["k3"], plines, shards=16)
    pimpl = run_isolated(bins["k3"], plines)
    for (c, term), a, m in zip(pcases, pimpl, pmodel):
        res["total"] += 1
        res["panic_cases"] += 1
        mf = k3.fields(m)
        if a is None or a.startswith("<"):
            res["c14"].append({"case": c, "what": "process aborted or hung instead of panicking", "observed": a})
            continue
        af = k3.fields(a)
        if af.get("res") == "unsupported":
            continue
        multi, bad, leaked = int(af["multi"]), int(af["bad"]), int(af["leaked"])
        res["leaked_on_panic"] += leaked
        if multi or bad:
            res["c14"].append({"case": c, "what": "unwinding dropped a value twice or dropped never-initialised memory",
                               "dropped_more_than_once": multi, "bad_drops": bad})
        if term in FULL_TERMS:
            if af.get("res") != "P":
                res["c14"].append({"case": c, "what": "a closure panicked but the call returned a value",
                                   "returned": af.get("res")})
            if mf.get("res") != "P":
                res["mismatch"].append({"case": c, "impl": af.get("res"), "model": mf.get("res")})
        if len(res["samples"]) < 6:
            res["samples"].append({"case": c[-120:], "impl": a[:160]})
    # --- injected panics of the reduce operator (a user closure of the terminal): on its k-th call,
    # or whenever it is called on the calling thread (the step that combines the workers' results)
    rcases = []
    for c in cases:
        cf = k3.fields(c)
        if cf["term"].split(":")[0] != "red":
            continue
        n_in = 0 if cf["in"] == "-" else len(cf["in"].split(","))
        if n_in < 2:
            continue
        for rp in (["caller", "n:0"] if tier == "quick" else ["caller", "n:0", "n:1", "n:3", "n:7"]):
            rcases.append(c + " rpanic=" + rp + (" delay=200" if n_in <= 40 else " delay=20"))
    # designed: ascending inputs 0..n-1, the operator panics as soon as its right operand is >= n, i.e.
    # a whole-chunk result being folded into what the worker accumulated from earlier chunks
    dcid = 900000
    for src in gen_harness.TOK_SOURCES:
        for ch, stages in (("", []), ("M", ["M:1:0"]), ("F", ["Fa"])):
            for (nt, cs) in [(2, ("C", 2)), (3, ("C", 4)), (2, ("Cm", 3)), (4, ("C", 3))]:
                n = 24
                ops = ["N:%d" % nt, "%s:%d" % cs] + stages + ["%s:%d" % cs, "N:%d" % nt]
                rcases.append("id=%d shape=%s known=%d in=%s ops=%s term=red:add avail=%d sched=- fuel=100000 rpanic=ge:%d delay=200" % (
                    dcid, gen_harness.shape_name(src, ch), 1 if gen_harness.TOK_SOURCES[src][2] else 0,
                    ",".join(map(str, range(n))), ";".join(ops), k3.AVAIL, n))
                dcid += 1
    res["reduce_panic_cases"] = len(rcases)
    res["reduce_panic_fired"] = 0
    rimpl = run_isolated(bins["k3"], rcases, batch=40, tmo_batch=90, tmo_single=30, max_timeouts=3)
    for c, a in zip(rcases, rimpl):
        if a == "<skipped>":
            continue
        res["total"] += 1
        if a is None or a.startswith("<"):
            res["c14"].append({"case": c, "what": "the reduce operator panicked and the call hung or the process aborted instead of panicking",
                               "observed": a})
            continue
        af = k3.fields(a)
        if af.get("res") == "unsupported":
            continue
        if af.get("redfired") == "1":
            res["reduce_panic_fired"] += 1
            if af.get("res") != "P":
                res["c14"].append({"case": c, "what": "the reduce operator panicked but the call returned a value",
                                   "returned": af.get("res")})
        if int(af["multi"]) or int(af["bad"]):
            res["c14"].append({"case": c, "what": "unwinding from a panicking reduce operator dropped a value twice or dropped never-initialised memory",
                               "dropped_more_than_once": int(af["multi"]), "bad_drops": int(af["bad"])})
    with open(cpath, "w") as f:
        json.dump(res, f)
    return res
