"""Common machinery for the /verif checks: builds, hashing, evidence, findings."""
import fcntl
import hashlib
import json
import os
import re
import subprocess
import sys
import time

VERIF = os.path.dirname(os.path.dirname(os.path.abspath(__file__)))
REPO = os.environ.get("VERIF_REPO", "/repo")
COQ = os.path.join(VERIF, "coq")
OCAML = os.path.join(VERIF, "ocaml")
HARNESS = os.path.join(VERIF, "harness")
CACHE = os.path.join(VERIF, ".cache")
EVID = os.path.join(VERIF, "evidence")
REPLAYS = os.path.join(VERIF, "replays")
DRIVER = os.path.join(OCAML, "driver")

ENV = dict(os.environ)
ENV.update({"CARGO_NET_OFFLINE": "true", "CARGO_TERM_COLOR": "never"})

FORBIDDEN = re.compile(
    r"\b(Admitted|admit|Axiom|Axioms|Parameter|Parameters|Conjecture|Conjectures)\b"
    r"|Unset\s+Guard|bypass_check|type-in-type|impredicative-set|Admit\s+Obligations|Unset\s+Positivity|Unset\s+Universe"
)
# allowed only inside a Section (they are discharged when the section closes)
SECTION_ONLY = re.compile(r"^\s*(Hypothesis|Hypotheses|Variable|Variables|Context)\b")


class Lock:
    """Exclusive lock on a build directory, so that checks may run side by side."""

    def __init__(self, name):
        os.makedirs(CACHE, exist_ok=True)
        self.path = os.path.join(CACHE, name + ".lock")

    def __enter__(self):
        self.f = open(self.path, "w")
        fcntl.flock(self.f, fcntl.LOCK_EX)
        return self

    def __exit__(self, *a):
        fcntl.flock(self.f, fcntl.LOCK_UN)
        self.f.close()


def run(cmd, cwd=None, timeout=3600, input=None, env=None):
    p = subprocess.run(cmd, cwd=cwd, timeout=timeout, input=input, env=env or ENV,
                       stdout=subprocess.PIPE, stderr=subprocess.STDOUT, text=True)
    return p.returncode, p.stdout


def tree_hash(paths, exts=None):
    h = hashlib.sha256()
    for root in paths:
        if os.path.isfile(root):
            files = [root]
        else:
            files = []
            for d, dirs, fs in os.walk(root):
                dirs[:] = sorted(x for x in dirs if x not in ("target", "_build", ".git", ".cache", "__pycache__"))
                for f in sorted(fs):
                    if exts is None or os.path.splitext(f)[1] in exts:
                        files.append(os.path.join(d, f))
        for f in files:
            h.update(f.encode())
            try:
                with open(f, "rb") as fh:
                    h.update(fh.read())
            except OSError:
                h.update(b"<unreadable>")
    return h.hexdigest()[:20]


def repo_hash():
    return tree_hash([os.path.join(REPO, "src"), os.path.join(REPO, "Cargo.toml")])


def model_hash():
    return tree_hash([os.path.join(COQ, "theories"), os.path.join(COQ, "_CoqProject"),
                      os.path.join(OCAML, "driver.ml")], exts={".v", ".ml", ""})


def harness_hash():
    return tree_hash([os.path.join(HARNESS, "src"), os.path.join(HARNESS, "Cargo.toml"),
                      os.path.join(VERIF, "lib")], exts={".rs", ".toml", ".py"})


# ---------------------------------------------------------------- Coq side

class BuildError(Exception):
    def __init__(self, what, log):
        super().__init__(what)
        self.what = what
        self.log = log


def coq_source_files():
    out = []
    with open(os.path.join(COQ, "_CoqProject")) as f:
        for line in f:
            line = line.strip()
            if line.endswith(".v"):
                out.append(line)
    return out


def forbidden_scan():
    """Admitted / Axiom / ... anywhere in the development (comments stripped)."""
    hits = []
    for rel in coq_source_files():
        src = open(os.path.join(COQ, rel)).read()
        # strip (nested) comments
        out, depth, i = [], 0, 0
        while i < len(src):
            if src.startswith("(*", i):
                depth += 1
                i += 2
            elif src.startswith("*)", i) and depth > 0:
                depth -= 1
                i += 2
            else:
                if depth == 0:
                    out.append(src[i])
                elif src[i] == "\n":
                    out.append("\n")
                i += 1
        text = "".join(out)
        # Section-local Variable/Hypothesis are allowed only inside a Section: we use none at all.
        depth = 0
        for n, line in enumerate(text.split("\n"), 1):
            if re.match(r"^\s*Section\s+\w+\s*\.", line):
                depth += 1
            elif re.match(r"^\s*End\s+\w+\s*\.", line):
                depth = max(0, depth - 1)
            m = FORBIDDEN.search(line)
            if m:
                hits.append("%s:%d: %s" % (rel, n, line.strip()))
            elif depth == 0 and SECTION_ONLY.search(line):
                hits.append("%s:%d: outside a section: %s" % (rel, n, line.strip()))
    return hits


def ensure_coq():
    """Full .vo build of the Coq development (a no-op when up to date). Returns build log."""
    with Lock("coq"):
        if not os.path.exists(os.path.join(COQ, "Makefile")) or \
                os.path.getmtime(os.path.join(COQ, "Makefile")) < os.path.getmtime(os.path.join(COQ, "_CoqProject")):
            rc, out = run(["coq_makefile", "-f", "_CoqProject", "-o", "Makefile"], cwd=COQ)
            if rc != 0:
                raise BuildError("coq_makefile", out)
        rc, out = run(["sh", "-c", "ulimit -v 12000000; exec timeout 2400 make -j16"], cwd=COQ, timeout=3000)
        if rc != 0:
            raise BuildError("coq build", out)
        hits = forbidden_scan()
        if hits:
            raise BuildError("forbidden construct in the Coq development", "\n".join(hits))
        # the extracted model -> OCaml driver
        stamp = os.path.join(CACHE, "driver.stamp")
        want = model_hash()
        have = open(stamp).read().strip() if os.path.exists(stamp) else ""
        if want != have or not os.path.exists(DRIVER):
            rc, out2 = run(["sh", os.path.join(OCAML, "build.sh")], cwd=OCAML, timeout=1200)
            if rc != 0:
                raise BuildError("ocaml driver build", out2)
            with open(stamp, "w") as f:
                f.write(want)
        return out


def property_theorems(prop):
    """Compiles theories/Properties/<prop>.v on its own (after the full build) and returns
    (theorem names, {theorem: [assumption lines]}, examples, raw output)."""
    rel = os.path.join("theories", "Properties", prop + ".v")
    src = open(os.path.join(COQ, rel)).read()
    names = re.findall(r"^(?:Theorem|Corollary)\s+(\w+)", src, re.M)
    examples = re.findall(r"^Example\s+(\w+)", src, re.M)
    printed = re.findall(r"^Print Assumptions\s+(\w+)\.", src, re.M)
    os.makedirs(CACHE, exist_ok=True)
    odir = os.path.join(CACHE, "prop-%d" % os.getpid())
    os.makedirs(odir, exist_ok=True)
    out_vo = os.path.join(odir, prop + ".vo")
    with Lock("coq"):
        rc, out = run(["sh", "-c", "ulimit -v 12000000; exec timeout 900 coqc -q -w -notation-overridden,-deprecated-hint-without-locality,-deprecated-instance-without-locality -Q theories OrxPar -o %s %s" % (out_vo, rel)], cwd=COQ, timeout=1000)
    import shutil
    shutil.rmtree(odir, ignore_errors=True)
    if rc != 0:
        raise BuildError("Properties/%s.v does not check" % prop, out)
    # Print Assumptions output blocks, in order
    blocks, cur = [], None
    for line in out.split("\n"):
        if line.startswith("Closed under the global context"):
            blocks.append([]); cur = None
        elif line.startswith("Axioms:") or line.startswith("Section Variables:"):
            cur = [line.strip()]; blocks.append(cur)
        elif cur is not None and line.strip() and (line.startswith(" ") or ":" in line):
            cur.append(line.strip())
        else:
            cur = None
    assum = {}
    for i, n in enumerate(printed):
        assum[n] = blocks[i] if i < len(blocks) else ["<no Print Assumptions output>"]
    return names, assum, examples, out


def coqchk(prop):
    """independent re-check of the compiled property file and everything it depends on
    (thorough tier); returns the report text. Cached per model hash."""
    os.makedirs(CACHE, exist_ok=True)
    cpath = os.path.join(CACHE, "coqchk-%s-%s.txt" % (prop, model_hash()))
    if os.path.exists(cpath):
        return open(cpath).read()
    with Lock("coq"):
        rc, out = run(["sh", "-c", "ulimit -v 12000000; exec timeout 1500 coqchk -silent -o -Q theories OrxPar OrxPar.Properties.%s" % prop],
                      cwd=COQ, timeout=1600)
    if rc != 0:
        raise BuildError("coqchk rejects Properties/%s" % prop, out)
    with open(cpath, "w") as f:
        f.write(out)
    return out


def assumptions_report():
    """Parses the output of theories/Properties*.v 'Print Assumptions' commands, as logged
    by the build into coq/assumptions.log (written by `make` through the Properties files)."""
    path = os.path.join(COQ, "assumptions.log")
    if not os.path.exists(path):
        return {}
    text = open(path).read()
    res = {}
    cur = None
    for line in text.split("\n"):
        m = re.match(r"^@@ASSUMPTIONS (\S+)", line)
        if m:
            cur = m.group(1)
            res[cur] = []
            continue
        if cur is not None and line.strip():
            res[cur].append(line.rstrip())
    return res


# ---------------------------------------------------------------- Rust side

def ensure_harness(bins, release=False):
    """Builds harness binaries against /repo's current working tree (feature verif-hooks)."""
    with Lock("harness"):
        # Cargo.toml is generated so that the harness can be pointed at a scratch copy of the repository
        tmpl = open(os.path.join(HARNESS, "Cargo.toml.in")).read().replace("@REPO@", REPO)
        ct = os.path.join(HARNESS, "Cargo.toml")
        if not os.path.exists(ct) or open(ct).read() != tmpl:
            with open(ct, "w") as f:
                f.write(tmpl)
        lock_src = os.path.join(REPO, "Cargo.lock")
        lock_dst = os.path.join(HARNESS, "Cargo.lock")
        if os.path.exists(lock_src) and not os.path.exists(lock_dst):
            import shutil
            shutil.copy(lock_src, lock_dst)
        cmd = ["cargo", "build", "--offline"]
        if release:
            cmd.append("--release")
        for b in bins:
            cmd += ["--bin", b]
        rc, out = run(cmd, cwd=HARNESS, timeout=3000)
        if rc != 0:
            raise BuildError("harness build (does /repo still compile with --features verif-hooks?)", out)
    d = os.path.join(HARNESS, "target", "release" if release else "debug")
    return {b: os.path.join(d, b) for b in bins}


# ---------------------------------------------------------------- findings / reporting

def load_findings():
    with open(os.path.join(VERIF, "known_findings.json")) as f:
        return json.load(f)


class Report:
    """Collects what one check run did and writes evidence / prints VIOLATION lines."""

    def __init__(self, prop, tier, seed):
        self.prop = prop
        self.tier = tier
        self.seed = seed
        self.t0 = time.time()
        self.violations = []       # (what, replay dict)
        self.known = []            # strings
        self.obligations = []      # theorem names
        self.discharged = []
        self.assumptions = {}
        self.evaluations = 0
        self.nontrivial = set()
        self.traces = 0
        self.samples = []
        self.dist = {}
        self.notes = []
        self.correspondences = []
        import glob
        for old in glob.glob(os.path.join(REPLAYS, "%s-*.json" % prop)):
            try:
                os.remove(old)
            except OSError:
                pass

    def count(self, key, n=1):
        self.dist[key] = self.dist.get(key, 0) + n

    def sample(self, s, limit=6):
        if len(self.samples) < limit:
            self.samples.append(s)

    def violation(self, what, replay):
        self.violations.append((what, replay))

    def finish(self, level_text, trusted_base, rule, checker_cmd, assumptions):
        os.makedirs(EVID, exist_ok=True)
        os.makedirs(REPLAYS, exist_ok=True)
        lines = []
        for k in self.known:
            lines.append("KNOWN-FINDING: property=%s %s" % (self.prop, k))
        for i, (what, replay) in enumerate(self.violations):
            path = os.path.join(REPLAYS, "%s-%d.json" % (self.prop, i))
            replay = dict(replay)
            replay.setdefault("property", self.prop)
            replay.setdefault("what", what)
            replay.setdefault("seed", self.seed)
            with open(path, "w") as f:
                json.dump(replay, f, indent=1)
            suffix = "" if replay.get("failing_input_found", True) else " no-failing-input-found"
            lines.append("VIOLATION property=%s replay=%s%s" % (self.prop, path, suffix))
            lines.append("  (%s)" % what)
        ev = {
            "property_id": self.prop,
            "tier": self.tier,
            "seed": self.seed,
            "level": "proof",
            "coverage": {
                "obligations": len(self.obligations),
                "discharged": len(self.discharged),
                "obligation_names": self.obligations,
                "checker_cmd": checker_cmd,
                "trusted_base": trusted_base,
                "print_assumptions": self.assumptions,
                "evaluations": self.evaluations,
                "distinct_nontrivial": len(self.nontrivial),
                "rule": rule,
                "traces_validated_against_impl": self.traces,
                "samples": self.samples,
                "input_distribution": self.dist,
                "correspondences": self.correspondences,
                "explanation": level_text,
                "known_findings_reported": self.known,
                "notes": self.notes,
            },
            "assumptions": assumptions,
            "wall_s": round(time.time() - self.t0, 2),
            "violations": len(self.violations),
        }
        with open(os.path.join(EVID, "%s.json" % self.prop), "w") as f:
            json.dump(ev, f, indent=1)
        for l in lines:
            print(l)
        sys.stdout.flush()
        return 1 if self.violations else 0
