"""Generates harness/src/gen_k3.rs: one Rust function per (source kind, chain shape), each with
one arm per terminal.  Types change along a chain, so programs have to be generated rather
than interpreted; closure parameters, inputs and settings stay run-time data."""
import itertools
import os

VERIF = os.path.dirname(os.path.dirname(os.path.abspath(__file__)))
OUT = os.path.join(VERIF, "harness", "src", "gen_k3.rs")

SOURCES = {
    # name: (expression, item type, known length)
    "vec": ("input.clone().into_par()", "val", True),
    "slice": ("input.as_slice().into_par()", "ref", True),
    "vecref": ("input.par()", "ref", True),
    "range": ("(range_lo..range_hi).into_par()", "us", True),
    "iterx": ("IterIntoPar::par(Src::new(input.clone(), true))", "val", True),
    "iteru": ("IterIntoPar::par(Src::new(input.clone(), false))", "val", False),
    "deque": ("dq.into_par()", "val", True),
    "endless": ("IterIntoPar::par(Endless::new())", "val", False),
    # a very long range (closure calls are only counted)
    "bigrange": ("(0..c.big).into_par()", "us", True),
    # std collections, borrowed and owned; the sequential iteration order is reported (effin)
    "dequeref": ("dq.par()", "ref", True),
    "btset": ("coll.par()", "ref", True),
    "hashset": ("coll.par()", "ref", True),
    "llist": ("coll.into_par()", "val", True),
    "bheap": ("coll.par()", "ref", True),
    # a cloning view of a slice iterator
    "cloned": ("orx_concurrent_iter::IntoCloned::cloned(input.as_slice().into_con_iter()).into_par()", "val", True),
    # concurrent iterators that have been advanced by c.pre elements before into_par()
    "prevec": ("ci.into_par()", "val", True),
    "preslice": ("ci.into_par()", "ref", True),
    "preiterx": ("ci.into_par()", "val", True),
    "preiteru": ("ci.into_par()", "val", False),
}

# statements executed before the parallel iterator is built
PRELUDE = {
    "deque": "let dq = wrapped_deque(&input);",
    "dequeref": "let dq = wrapped_deque(&input); assert!(input.len() < 2 || !dq.as_slices().1.is_empty());",
    "btset": "let coll: BTreeSet<i64> = input.iter().cloned().collect(); set_effin(coll.iter().cloned().collect());",
    "hashset": "let coll: HashSet<i64> = input.iter().cloned().collect(); set_effin(coll.iter().cloned().collect());",
    "llist": "let coll: LinkedList<i64> = input.iter().cloned().collect(); set_effin(coll.iter().cloned().collect());",
    "bheap": "let coll: BinaryHeap<i64> = input.iter().cloned().collect(); set_effin(coll.iter().cloned().collect());",
    "prevec": "let ci = input.clone().into_con_iter(); for _ in 0..c.pre { let _ = ci.next(); }",
    "preslice": "let ci = input.as_slice().into_con_iter(); for _ in 0..c.pre { let _ = ci.next(); }",
    "preiterx": "let ci = IterIntoConcurrentIter::into_con_iter(input.clone().into_iter()); for _ in 0..c.pre { let _ = ci.next(); }",
    "preiteru": "let ci = IterIntoConcurrentIter::into_con_iter(Unk(input.clone().into_iter())); for _ in 0..c.pre { let _ = ci.next(); }",
}
EFFIN_SOURCES = ("btset", "hashset", "llist", "bheap")
PRE_SOURCES = ("prevec", "preslice", "preiterx", "preiteru")
# sources whose concurrent iterator is ConIterOfIter (ticket / handle protocol)
ITER_SOURCES = ("iterx", "iteru", "deque", "endless", "dequeref", "btset", "hashset", "llist", "bheap", "preiterx", "preiteru")

STAGES = "MFXO"

NEXT = {  # (kind, stage) -> (kind, eager, opaque_result)
}
KINDS = ["Empty", "Map", "Filter", "MapFilter", "FilterMap", "FilterMapFilter", "FlatMap", "FlatMapFilter"]


def step(kind, s):
    """returns (new kind, eager?, opaque?) following src/par/*.rs"""
    eager = (kind, s) in {("Filter", "X"), ("MapFilter", "X"), ("FilterMap", "X"), ("FilterMapFilter", "X"),
                          ("FlatMapFilter", "M"), ("FlatMapFilter", "X"), ("FlatMapFilter", "O"), ("FlatMap", "O")}
    fresh = {"M": "Map", "F": "Filter", "X": "FlatMap", "O": "FilterMap"}
    if eager:
        opaque = (kind, s) == ("FilterMap", "X")
        return fresh[s], True, opaque
    table = {
        "Empty": fresh,
        "Map": {"M": "Map", "F": "MapFilter", "X": "FlatMap", "O": "FilterMap"},
        "Filter": {"M": "FilterMap", "F": "Filter", "O": "FilterMap"},
        "MapFilter": {"M": "FilterMap", "F": "MapFilter", "O": "FilterMap"},
        "FilterMap": {"M": "FilterMap", "F": "FilterMapFilter", "O": "FilterMap"},
        "FilterMapFilter": {"M": "FilterMap", "F": "FilterMapFilter", "O": "FilterMap"},
        "FlatMap": {"M": "FlatMap", "F": "FlatMapFilter", "X": "FlatMap"},
        "FlatMapFilter": {"F": "FlatMapFilter"},
    }
    opaque = (kind, s) in {("FilterMap", "F"), ("FlatMap", "X")}
    return table[kind][s], False, opaque


def analyse(chain):
    kind, opaque, eager_any = "Empty", False, False
    for s in chain:
        kind, e, o = step(kind, s)
        opaque = opaque or o
        eager_any = eager_any or e
    return kind, opaque, eager_any


def chains_for(source):
    if source == "vec":
        out = [""]
        out += [a for a in STAGES]
        out += [a + b for a in STAGES for b in STAGES]
        out += [p + c for p in ("MF", "OF", "XF") for c in STAGES]
        return out
    if source in ("endless", "bigrange"):
        return ["", "M", "F", "MF", "X", "O", "OFM", "FMF", "XF"]
    if source in EFFIN_SOURCES or source in ("dequeref", "cloned"):
        return ["", "M", "F", "X", "MF"]
    if source in PRE_SOURCES:
        return ["", "M", "F", "X", "O", "MF"]
    return ["", "M", "F", "X", "O", "MF", "FM", "XF", "OF", "FX", "XFM"]


TOK_SOURCES = {
    "vec": ("toks(&input).into_par()", "val", True),
    "iterx": ("IterIntoPar::par(TokSrc::new(input.clone(), true))", "val", True),
    "iteru": ("IterIntoPar::par(TokSrc::new(input.clone(), false))", "val", False),
}
TOK_CHAINS = ["", "M", "F", "X", "O", "MF", "FM", "XF", "OF", "FX", "XFM", "MX", "MFM", "OFO"]


def tok_shapes():
    return [(s, c) for s in TOK_SOURCES for c in TOK_CHAINS]


def gen_tok_shape(source, chain):
    """the same programs over canary items (Tok): every creation and drop is recorded"""
    expr, ty, known = TOK_SOURCES[source]
    n = len(chain)
    pid = 2 + n + 2
    lines = ["fn tshape_%s(c: &Case, hdr: &std::cell::RefCell<String>) -> String {" % shape_name(source, chain),
             "    let input: Vec<i64> = c.input.clone();"]
    stage_exprs = []
    for k, s in enumerate(chain):
        sid = 2 + k
        stage_exprs.append({"M": ".map(tmk_map(%d, c.cl[%d]))", "F": ".filter(mk_fil(%d, c.cl[%d]))",
                            "X": ".flat_map(tmk_flat(%d, c.cl[%d]))", "O": ".filter_map(tmk_fm(%d, c.cl[%d]))"}[s] % (sid, k))
    build = "{ let p0 = %s; let p0 = if c.lead_cn { p0.chunk_size(c.cs1).num_threads(c.nt1) } else { p0.num_threads(c.nt1).chunk_size(c.cs1) }; p0%s }" % (expr, "".join(stage_exprs))
    lines.append("    macro_rules! build { () => {{ set_phase(0); let p = %s; let p = if c.trail { if c.trail_nc { p.num_threads(c.nt2).chunk_size(c.cs2) } else { p.chunk_size(c.cs2).num_threads(c.nt2) } } else { p }; *hdr.borrow_mut() = format!(\"params={} kind={}\", params_str(p.params()), kind_of(&p)); set_phase(1); p }} }" % build)
    lines.append("    match &c.term {")
    lines.append("        Term::Cv => { let p = build!(); let r = p.collect_vec(); r_list(r.iter().map(|x| x.v()).collect()) }")
    lines.append("        Term::Cs => { let p = build!(); let r = p.collect(); r_list(r.iter().map(|x| x.v()).collect()) }")
    lines.append("        Term::Cx => { let p = build!(); let r = p.collect_x(); r_bag(r.iter().map(|x| x.v()).collect()) }")
    lines.append("        Term::Ci(t, old) => {")
    lines.append("            let oldv: Vec<Tok> = toks(old);")
    lines.append("            match t {")
    lines.append("                'v' => { let p = build!(); let r = p.collect_into(oldv); r_list(r.iter().map(|x| x.v()).collect()) }")
    lines.append("                's' => { let mut sv = SplitVec::new(); for x in oldv { sv.push(x); } let p = build!(); let r = p.collect_into(sv); r_list(r.iter().map(|x| x.v()).collect()) }")
    lines.append("                'g' => { let mut fv = FixedVec::new(oldv.len() + c.input.len().max(1)); for x in oldv { fv.push(x); } let p = build!(); let r = p.collect_into(fv); r_list(r.iter().map(|x| x.v()).collect()) }")
    lines.append("                'w' => { let mut vv = Vec::with_capacity(oldv.len() + (c.input.len() / 2).max(1)); for x in oldv { vv.push(x); } let p = build!(); let r = p.collect_into(vv); r_list(r.iter().map(|x| x.v()).collect()) }")
    lines.append("                _ => { let mut fv = FixedVec::new(oldv.len().max(1)); for x in oldv { fv.push(x); } let p = build!(); let r = p.collect_into(fv); r_list(r.iter().map(|x| x.v()).collect()) }")
    lines.append("            }")
    lines.append("        }")
    lines.append("        Term::Cnt => { let p = build!(); format!(\"N:{}\", p.count()) }")
    lines.append("        Term::Fe => { let p = build!(); p.for_each(mk_each(c.pid)); \"U\".to_string() }")
    lines.append("        Term::Red(o) => { let p = build!(); r_opt(p.reduce(tmk_red(c.pid, *o)).map(|x| x.v())) }")
    lines.append("        Term::Find(q) => { let p = build!(); r_opt(p.find(mk_fil(c.pid, *q)).map(|x| x.v())) }")
    lines.append("        Term::First => { let p = build!(); r_opt(p.first().map(|x| x.v())) }")
    lines.append("        Term::Any(q) => { let p = build!(); r_bool(p.any(mk_fil(c.pid, *q))) }")
    lines.append("        Term::All(q) => { let p = build!(); r_bool(p.all(mk_fil(c.pid, *q))) }")
    lines.append("        _ => \"unsupported\".to_string(),")
    lines.append("    }")
    lines.append("}")
    return "\n".join(lines)


def shape_name(source, chain):
    return "%s_%s" % (source, chain if chain else "E")


def conv(ty):
    return ".v()"


def gen_shape(source, chain):
    expr, ty, known = SOURCES[source]
    kind, opaque, _ = analyse(chain)
    n = len(chain)
    pid = 2 + n + 2
    lines = []
    lines.append("fn shape_%s(c: &Case, hdr: &std::cell::RefCell<String>) -> String {" % shape_name(source, chain))
    lines.append("    let input: Vec<i64> = c.input.clone();")
    if source == "range":
        lines.append("    let range_lo: usize = if input.is_empty() { 0 } else { input[0] as usize };")
        lines.append("    let range_hi: usize = range_lo + input.len();")
        lines.append("    for (k, x) in input.iter().enumerate() { assert!(*x == (range_lo + k) as i64, \"range source needs a contiguous input\"); }")
    if source in PRELUDE:
        lines.append("    " + PRELUDE[source])
    # item type after the chain
    t = ty
    stage_exprs = []
    for k, s in enumerate(chain):
        sid = 2 + k
        if s == "M":
            stage_exprs.append(".map(mk_map(%d, c.cl[%d]))" % (sid, k))
            t = "val"
        elif s == "F":
            stage_exprs.append(".filter(mk_fil(%d, c.cl[%d]))" % (sid, k))
        elif s == "X":
            stage_exprs.append(".flat_map(mk_flat(%d, c.cl[%d]))" % (sid, k))
            t = "val"
        else:
            stage_exprs.append(".filter_map(mk_fm(%d, c.cl[%d]))" % (sid, k))
            t = "val"
    build = "{ let p0 = %s; let p0 = if c.lead_cn { p0.chunk_size(c.cs1).num_threads(c.nt1) } else { p0.num_threads(c.nt1).chunk_size(c.cs1) }; p0%s }" % (expr, "".join(stage_exprs))
    lines.append("    macro_rules! build { () => {{ set_phase(0); let p = %s; let pmid = params_str(p.params()); let p = if c.trail { if c.trail_nc { p.num_threads(c.nt2).chunk_size(c.cs2) } else { p.chunk_size(c.cs2).num_threads(c.nt2) } } else { p }; *hdr.borrow_mut() = format!(\"params={} pmid={} kind={}\", params_str(p.params()), pmid, kind_of(&p)); set_phase(1); p }} }" % build)
    rust_t = {"val": "i64", "ref": "&i64", "us": "usize"}[t]
    # old contents for collect_into, in the item type
    if t == "val":
        old_vec = "old.clone()"
    elif t == "ref":
        old_vec = "old.iter().collect::<Vec<&i64>>()"
    else:
        old_vec = "old.iter().map(|x| *x as usize).collect::<Vec<usize>>()"
    red = "p.reduce(mk_red(c.pid, *o))" if t == "val" else "p.reduce(mk_red_sel(c.pid, *o)).map(|x| x.v())"
    has_ix = (not opaque) and kind in ("Empty", "Map", "Filter", "MapFilter")
    findix = ("r_optix(p.find_with_index(mk_fil(c.pid, *q)).map(|(i, x)| (i, x.v())))") if has_ix else "\"unsupported\".to_string()"
    firstix = "r_optix(p.first_with_index().map(|(i, x)| (i, x.v())))" if has_ix else "\"unsupported\".to_string()"
    lines.append("    match &c.term {")
    lines.append("        Term::Cv => { let p = build!(); let r = p.collect_vec(); r_list(r.iter().map(|x| x.v()).collect()) }")
    lines.append("        Term::Cs => { let p = build!(); let r = p.collect(); r_list(r.iter().map(|x| x.v()).collect()) }")
    lines.append("        Term::Cx => { let p = build!(); let r = p.collect_x(); r_bag(r.iter().map(|x| x.v()).collect()) }")
    lines.append("        Term::Ci(t, old) => {")
    lines.append("            let old: Vec<i64> = old.clone(); let oldv: Vec<%s> = %s;" % (rust_t, old_vec))
    lines.append("            match t {")
    lines.append("                'v' => { let p = build!(); let r = p.collect_into(oldv); r_list(r.iter().map(|x| x.v()).collect()) }")
    lines.append("                's' => { let mut sv = SplitVec::new(); for x in oldv { sv.push(x); } let p = build!(); let r = p.collect_into(sv); r_list(r.iter().map(|x| x.v()).collect()) }")
    lines.append("                'g' => { let mut fv = FixedVec::new(oldv.len() + c.input.len().max(1)); for x in oldv { fv.push(x); } let p = build!(); let r = p.collect_into(fv); r_list(r.iter().map(|x| x.v()).collect()) }")
    lines.append("                'w' => { let mut vv = Vec::with_capacity(oldv.len() + (c.input.len() / 2).max(1)); for x in oldv { vv.push(x); } let p = build!(); let r = p.collect_into(vv); r_list(r.iter().map(|x| x.v()).collect()) }")
    lines.append("                _ => { let mut fv = FixedVec::new(oldv.len().max(1)); for x in oldv { fv.push(x); } let p = build!(); let r = p.collect_into(fv); r_list(r.iter().map(|x| x.v()).collect()) }")
    lines.append("            }")
    lines.append("        }")
    lines.append("        Term::Cnt => { let p = build!(); format!(\"N:{}\", p.count()) }")
    lines.append("        Term::Fe => { let p = build!(); p.for_each(mk_each(c.pid)); \"U\".to_string() }")
    lines.append("        Term::Red(o) => { let p = build!(); r_opt(%s) }" % red)
    if t == "val":
        lines.append("        Term::Sum => { let p = build!(); r_opt(Some(p.map(|x| W64(x)).sum().0)) }")
        lines.append("        Term::Fold(id, o) => { let p = build!(); let id = *id; r_opt(Some(p.fold(move || id, mk_red(c.pid, *o)))) }")
    else:
        lines.append("        Term::Sum | Term::Fold(_, _) => \"unsupported\".to_string(),")
    lines.append("        Term::Min => { let p = build!(); r_opt(p.min().map(|x| x.v())) }")
    lines.append("        Term::Max => { let p = build!(); r_opt(p.max().map(|x| x.v())) }")
    lines.append("        Term::MinBy => { let p = build!(); r_opt(p.min_by(|a, b| a.v().cmp(&b.v())).map(|x| x.v())) }")
    lines.append("        Term::MaxBy => { let p = build!(); r_opt(p.max_by(|a, b| a.v().cmp(&b.v())).map(|x| x.v())) }")
    lines.append("        Term::MinKey(m) => { let p = build!(); let m = *m; r_opt(p.min_by_key(move |x| x.v().rem_euclid(m)).map(|x| x.v())) }")
    lines.append("        Term::MaxKey(m) => { let p = build!(); let m = *m; r_opt(p.max_by_key(move |x| x.v().rem_euclid(m)).map(|x| x.v())) }")
    lines.append("        Term::Find(q) => { let p = build!(); r_opt(p.find(mk_fil(c.pid, *q)).map(|x| x.v())) }")
    lines.append("        Term::FindIx(q) => { let _ = q; %s }" % (("{ let p = build!(); %s }" % findix) if has_ix else findix))
    lines.append("        Term::First => { let p = build!(); r_opt(p.first().map(|x| x.v())) }")
    lines.append("        Term::FirstIx => { %s }" % (("{ let p = build!(); %s }" % firstix) if has_ix else firstix))
    lines.append("        Term::Any(q) => { let p = build!(); r_bool(p.any(mk_fil(c.pid, *q))) }")
    lines.append("        Term::All(q) => { let p = build!(); r_bool(p.all(mk_fil(c.pid, *q))) }")
    lines.append("    }")
    lines.append("}")
    return "\n".join(lines)


def all_shapes():
    out = []
    for src in SOURCES:
        for ch in chains_for(src):
            out.append((src, ch))
    return out


def main():
    parts = ["// @generated by lib/gen_harness.py -- do not edit",
             "#![allow(unused_imports, unused_variables, clippy::all)]",
             "use crate::rt::*;",
             "use orx_parallel::*;",
             "use orx_split_vec::SplitVec;",
             "use orx_fixed_vec::FixedVec;",
             "use orx_fixed_vec::PinnedVec;",
             "use orx_fixed_vec::Collection;",
             "use std::collections::{BTreeSet, BinaryHeap, HashSet, LinkedList, VecDeque};",
             "use orx_concurrent_iter::{ConcurrentIter, ConcurrentIterX, IntoConcurrentIter, IterIntoConcurrentIter};",
             ""]
    shapes = all_shapes()
    for src, ch in shapes:
        parts.append(gen_shape(src, ch))
        parts.append("")
    for src, ch in tok_shapes():
        parts.append(gen_tok_shape(src, ch))
        parts.append("")
    parts.append("pub fn dispatch_tok(c: &Case, hdr: &std::cell::RefCell<String>) -> String {")
    parts.append("    match c.shape.as_str() {")
    for src, ch in tok_shapes():
        parts.append("        \"%s\" => tshape_%s(c, hdr)," % (shape_name(src, ch), shape_name(src, ch)))
    parts.append("        s => panic!(\"unknown tok shape {}\", s),")
    parts.append("    }")
    parts.append("}")
    parts.append("")
    parts.append("pub fn dispatch(c: &Case, hdr: &std::cell::RefCell<String>) -> String {")
    parts.append("    match c.shape.as_str() {")
    for src, ch in shapes:
        parts.append("        \"%s\" => shape_%s(c, hdr)," % (shape_name(src, ch), shape_name(src, ch)))
    parts.append("        s => panic!(\"unknown shape {}\", s),")
    parts.append("    }")
    parts.append("}")
    text = "\n".join(parts) + "\n"
    old = open(OUT).read() if os.path.exists(OUT) else None
    if old != text:
        with open(OUT, "w") as f:
            f.write(text)
    return shapes


if __name__ == "__main__":
    s = main()
    print("%d shapes" % len(s))
