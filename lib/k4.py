"""K4: replay under the deterministic scheduler.  The harness serialises the spawner and the
workers of the real crate under a pick list (yield points: before every has_more read of the
spawner, at worker begin, right before each source element is evaluated); the extracted model
runs the same pick list as a macro-schedule.  Compared: the spawn sequence and chunk sizes, which
worker processed which source positions in which order, every closure call, the result.
Schedules are adversarial on purpose: a later-spawned worker pulls chunk 0, one worker takes
everything, a worker's match is published before the holder of the first match evaluates it,
more than four workers with progress before the second lag period."""
import json
import os
import random
from collections import Counter

import gen_harness
import k3
from vlib import CACHE, DRIVER, ENV, ensure_harness, harness_hash, model_hash, repo_hash

SOURCES = ["vec", "slice", "vecref", "range", "iterx", "iteru", "deque", "dequeref", "cloned"]


def lazy_chains(source):
    out = []
    for ch in gen_harness.chains_for(source):
        if not ch:
            continue
        _, _, eager = gen_harness.analyse(ch)
        if not eager:
            out.append(ch)
    return out


def eager_chains(source):
    out = []
    for ch in gen_harness.chains_for(source):
        if ch and gen_harness.analyse(ch)[2]:
            out.append(ch)
    return out


def gen_sched(r, style, nt, n):
    w = max(nt, 1)
    tail = []
    for _ in range(3 * n + 40):
        tail += list(range(0, w + 1))
    if style == "late_first":          # spawner spawns everybody, then workers start in reverse order
        pre = [0] * (w + 3) + list(range(w, 0, -1)) * 2
    elif style == "one_takes_all":     # one worker runs alone for a long time
        k = r.randrange(1, w + 1)
        pre = [0] * (w + 3) + [k] * (2 * n + 5)
    elif style == "spawner_slow":      # the first worker progresses between every two spawner decisions
        pre = []
        for _ in range(w + 3):
            pre += [0] + [1] * r.choice([1, 2, 5])
    elif style == "late_publishes":    # a later worker runs first and far, then the first
        pre = [0] * (w + 3) + [w] * (n + 2) + [1] * (n + 2)
    elif style == "progress_before_lag":
        pre = [0, 1, 1, 0, 2, 2, 0, 3, 3, 0, 4, 4, 1, 2, 3, 4, 1, 2, 3, 4, 0, 0, 0, 0, 0, 0]
    else:
        pre = [r.randrange(0, w + 1) for _ in range(r.choice([10, 40, 120]))]
    return pre + tail


STYLES = ["late_first", "one_takes_all", "spawner_slow", "late_publishes", "progress_before_lag", "random", "random"]


def gen_case(r, cid, source, chain, tier):
    n = r.choice([1, 2, 3, 5, 8, 13, 20, 33]) if tier == "quick" else r.choice([1, 2, 3, 5, 8, 13, 20, 33, 64])
    if source == "range":
        lo = r.randrange(0, 6)
        inp = list(range(lo, lo + n))
    else:
        inp = r.sample(range(-40, 60), n)
    stages = []
    for s in chain:
        stages.append({"M": r.choice(k3.MAPS), "F": r.choice(k3.FILS), "X": r.choice(k3.FLATS), "O": r.choice(k3.FMS)}[s](r))
    nt = r.choice([2, 3, 4, 5, 6, 8, 9])
    cs = r.choice([("C", 0), ("C", 1), ("C", 2), ("C", 3), ("C", 7), ("Cm", 1), ("Cm", 2), ("Cm", 3)])
    kind, opaque, _ = gen_harness.analyse(chain)
    has_ix = (not opaque) and kind in ("Empty", "Map", "Filter", "MapFilter")
    ty = k3.item_type(source, chain)
    term = r.choice(["cv", "cs", "cx", "ci", "cnt", "fe", "red", "find", "findix", "find", "findix", "first", "firstix", "any", "all"])
    if term in ("findix", "firstix") and not has_ix:
        term = "find" if term == "findix" else "first"
    if term == "red":
        term = "red:" + (r.choice(["min", "max"]) if ty != "val" else r.choice(["add", "xor", "min", "max"]))
    elif term == "ci":
        old = [r.randrange(0, 50) for _ in range(r.choice([0, 1, 3]))]
        term = "ci:%s:%s" % (r.choice("vsf"), "/".join(map(str, old)) if old else "-")
    elif term in ("find", "findix", "any", "all"):
        term = term + ":" + k3.rnd_filf(r)
    ops = ["N:%d" % nt, "%s:%d" % cs] + stages + ["%s:%d" % cs, "N:%d" % nt]
    style = r.choice(STYLES)
    sched = gen_sched(r, style, nt, n)
    line = "id=%d shape=%s known=@K@ in=%s ops=%s term=%s avail=%d sched=%s fuel=0 macro=1" % (
        cid, gen_harness.shape_name(source, chain), ",".join(map(str, inp)), ";".join(ops), term, k3.AVAIL,
        ",".join(map(str, sched)))
    line = line.replace("@K@", "1" if gen_harness.SOURCES[source][2] else "0")
    return line, style, inp


def long_chunk_cases(r, cid0, tier):
    """chunks of thousands of elements under a forced interleaving (run-length encoded picks):
    worker 1 takes chunk 0, worker 2 chunk 1; worker 1 finishes, takes chunk 2 and finds a match
    there first; worker 2 then has to finish its chunk, which holds the true first match deep
    inside (beyond any periodic check point)"""
    out = []
    cid = cid0
    for c in ([4096, 8192] if tier == "quick" else [1024, 4096, 5000, 8192]):
        n = 2 * c + c // 2 + 7
        deep = c + c - r.randrange(5, 90)          # near the end of chunk 1
        later = 2 * c + r.randrange(50, 400)       # early in chunk 2
        m = later - deep
        for (src, chain, stages) in [("range", "F", ["Fg:%d" % (deep - 3)]), ("vec", "MF", ["M:1:0", "Fg:%d" % (deep - 3)]),
                                     ("range", "M", ["M:1:0"])]:
            pred = "F:%d:%d" % (m, deep % m)
            if chain == "M":
                # without the filter stage the predicate must not match before `deep`
                big = later + 5
                pred = "Fg:%d" % deep
            term = r.choice(["find", "findix"]) + ":" + pred
            ops = ["N:2", "C:%d" % c] + stages + ["C:%d" % c, "N:2"]
            sched = "0x4,1x1,2x1,1x%d,1x%d,2x%d,1x50,2x50,0x5,1x5,2x5" % (c, later - 2 * c + 3, c + 5)
            inp = list(range(n))
            line = "id=%d shape=%s known=1 in=%s ops=%s term=%s avail=%d sched=%s fuel=0 macro=1" % (
                cid, gen_harness.shape_name(src, chain), ",".join(map(str, inp)), ";".join(ops), term, k3.AVAIL, sched)
            out.append((line, "long_chunks_late_publishes", inp))
            cid += 1
    # pulls of thousands of elements from sources of unknown and of exact length through the ordered
    # filtering collect, the counting and the reducing kernels: which worker got which positions
    for c in ([3000] if tier == "quick" else [1500, 3000, 5000]):
        n = 2 * c + c // 3
        for src in ["iteru", "iterx", "vec"]:
            for (chain, stages, term) in [("F", ["Fa"], "cv"), ("MF", ["M:1:0", "Fa"], "ci:v:7/8"), ("F", ["Fa"], "cnt"),
                                          ("O", ["O:2:0:1:0"], "cv"), ("M", ["M:1:0"], "red:add")]:
                if src != "vec" and chain == "M" and term.startswith("red"):
                    pass
                ops = ["N:2", "C:%d" % c] + stages + ["C:%d" % c, "N:2"]
                sched = "0x4,1x1,2x1,1x%d,2x%d,1x%d,2x%d,0x5,1x5,2x5" % (c + 10, c + 10, c + 10, c + 10)
                inp = list(range(n))
                line = "id=%d shape=%s known=%d in=%s ops=%s term=%s avail=%d sched=%s fuel=0 macro=1" % (
                    cid, gen_harness.shape_name(src, chain), 1 if gen_harness.SOURCES[src][2] else 0,
                    ",".join(map(str, inp)), ";".join(ops), term, k3.AVAIL, sched)
                out.append((line, "long_pulls", inp))
                cid += 1
    return out


def mk_line(cid, src, chain, inp, stages, nt, cs, term, sched):
    ops = ["N:%d" % nt, "%s:%d" % cs] + stages + ["%s:%d" % cs, "N:%d" % nt]
    return "id=%d shape=%s known=%d in=%s ops=%s term=%s avail=%d sched=%s fuel=0 macro=1" % (
        cid, gen_harness.shape_name(src, chain), 1 if gen_harness.SOURCES[src][2] else 0,
        ",".join(map(str, inp)), ";".join(ops), term, k3.AVAIL, ",".join(map(str, sched)))


def designed_cases(r, cid0, tier):
    """(A) one run that mixes the chunk-size-1 code path and the chunked one: Min(1) / Auto, eight
    threads, the first four workers progress before the spawner's lag decision, so the workers
    spawned afterwards get a larger chunk size;  (B) flat_map + find where the first match sits at
    inner offset 2 of the last element of a chunk and the next chunk matches at its first item."""
    out = []
    cid = cid0
    srcs = ["vec", "iterx", "slice"] if tier == "quick" else ["vec", "iterx", "iteru", "slice", "deque"]
    for src in srcs:
        for ch in lazy_chains(src):
            ty = k3.item_type(src, ch)
            for k, term in enumerate(["cv", "cs", "ci:v:7/8", "cx", "cnt", "red", "find:Fg:30", "first"]):
                if term == "red":
                    term = "red:min" if ty != "val" else "red:add"
                n = 40
                inp = r.sample(range(-40, 60), n)
                stages = []
                for st in ch:
                    stages.append({"M": r.choice(k3.MAPS), "F": r.choice(k3.FILS), "X": r.choice(k3.FLATS), "O": r.choice(k3.FMS)}[st](r))
                cs = ("Cm", 1)
                sched = gen_sched(r, "progress_before_lag", 8, n)
                out.append((mk_line(cid, src, ch, inp, stages, 8, cs, term, sched), "mixed_chunk_arms", inp))
                cid += 1
    # (C) the match is the first element a worker pulls: element c (first of chunk 1) pulled by worker 2
    # before / after worker 1 processes chunk 0; every find kernel (map, filter_map, flat_map)
    for src in (["vec", "iterx"] if tier == "quick" else ["vec", "iterx", "iteru", "slice", "range"]):
        have = set(lazy_chains(src))
        for ch, stages in {"M": ["M:1:0"], "F": ["Fa"], "O": ["O:1:0:1:0"], "OF": ["O:1:0:1:0", "Fa"], "X": ["X:1:0"], "MF": ["M:1:0", "Fa"]}.items():
            if ch not in have:
                continue
            for c in [2, 4]:
                n = 5 * c + 1
                inp = list(range(n))
                for order in ["finder_first", "other_first"]:
                    pre = [0] * 6 + [1] + [2]
                    pre += ([2] * 3 + [1] * (4 * c + 6)) if order == "finder_first" else ([1] * 2 + [2] * 3 + [1] * (4 * c + 6))
                    sched = pre + gen_sched(r, "late_first", 2, n)
                    term = ["find", "any"][cid % 2] + ":F:199:%d" % c
                    out.append((mk_line(cid, src, ch, inp, stages, 2, ("C", c), term, sched), "first_pull_" + order, inp))
                    cid += 1
    # (D) a worker makes its first pull on a short tail (2 <= remaining < c) and parks; another worker
    # then comes back for more: with Exact(c) the tail went to the first of them in one pull
    for src in (["vec", "iterx", "range"] if tier == "quick" else ["vec", "iterx", "range", "slice", "deque"]):
        have = set(lazy_chains(src))
        for ch, stages in {"M": ["M:1:0"], "F": ["Fa"], "MF": ["M:1:0", "Fa"], "O": ["O:1:0:1:0"], "X": ["X:1:0"]}.items():
            if ch not in have:
                continue
            for c in [3, 5]:
                for tail in [2, c - 1]:
                    n = 2 * c + tail
                    inp = list(range(n))
                    for term in ["cnt", "fe", "cv", "red"]:
                        if term == "red":
                            term = "red:min" if k3.item_type(src, ch) != "val" else "red:add"
                        pre = [0] * 7 + [1] + [2] + [3] + [1] * (c + 2) + [3] * 4 + [2] * (c + 2)
                        sched = pre + gen_sched(r, "late_first", 3, n)
                        out.append((mk_line(cid, src, ch, inp, stages, 3, ("C", c), term, sched), "tail_pull", inp))
                        cid += 1
    flat = {"X": ["X:3:100"], "XF": ["X:3:100", "Fa"], "MX": ["M:1:0", "X:3:100"], "XM": ["X:3:100", "M:1:0"]}
    for src in (["vec", "iterx", "range"] if tier == "quick" else ["vec", "iterx", "iteru", "range", "slice", "deque"]):
        have = set(lazy_chains(src))
        for ch, stages in flat.items():
            if ch not in have:
                continue
            for c in [2, 3, 5]:
                for mult in [1, 2]:
                    n = 3 * c + 1
                    rr = c * mult            # element rr-1 matches at inner offset 2, element rr at inner offset 0
                    inp = list(range(n))
                    for style in ["conc_a", "conc_b", "late_first", "spawner_slow"]:
                        term = r.choice(["find", "find", "any"]) + ":F:199:%d" % rr
                        nt = 2 if style.startswith("conc") else 2 + mult
                        if style.startswith("conc"):
                            # worker 1 holds the chunk that ends with element rr-1, worker 2 the next one
                            pre = [0] * 6 + [1] * (1 + c * (mult - 1)) + [2]
                            pre += ([2] * (c + 2) + [1] * (c + 3)) if style == "conc_a" else ([1] * (c + 3) + [2] * (c + 3))
                            sched = pre + gen_sched(r, "late_first", nt, n)
                        else:
                            sched = gen_sched(r, style, nt, n)
                        out.append((mk_line(cid, src, ch, inp, stages, nt, ("C", c), term, sched), "flat_inner_" + style, inp))
                        cid += 1
    return out


def panic_cases(r, cid0, tier):
    """a chain closure panics on the first element of the second chunk while (find) the holder of
    the first chunk has published / is about to publish a match, or while (full terminals) the
    other workers keep producing results: the call must panic whatever the order"""
    out = []
    cid = cid0
    srcs = ["vec", "iterx"] if tier == "quick" else ["vec", "iterx", "iteru", "slice", "range", "deque"]
    for src in srcs:
        have = set(lazy_chains(src))
        for ch, stages in {"M": ["M:1:0"], "F": ["Fa"], "MF": ["M:1:0", "Fa"], "X": ["X:1:0"], "O": ["O:2:0:1:0"]}.items():
            if ch not in have:
                continue
            for c in [2, 4]:
                n = 3 * c
                inp = list(range(n))
                for order in ["match_first", "panic_first"]:
                    for term in ["find:Fl:1", "any:Fl:1", "cv", "cnt", "red"]:
                        if ch == "O" and term.startswith(("find", "any")):
                            # the filter_map keeps even values: element 0 survives and matches
                            pass
                        if term == "red":
                            term = "red:min" if k3.item_type(src, ch) != "val" else "red:add"
                        pre = [0] * 6 + [1] + [2]
                        pre += ([1] * (c + 2) + [2] * (c + 2)) if order == "match_first" else ([2] * (c + 2) + [1] * (c + 2))
                        sched = pre + gen_sched(r, "late_first", 2, n)
                        line = mk_line(cid, src, ch, inp, stages, 2, ("C", c), term, sched) + " panic=2:%d" % c
                        out.append((line, "panic_" + order, inp))
                        cid += 1
    return out


def run_k4(tier, seed):
    os.makedirs(CACHE, exist_ok=True)
    key = "k4-%s-%s-%s-%s-%d" % (repo_hash(), model_hash(), harness_hash(), tier, seed)
    cpath = os.path.join(CACHE, key + ".json")
    if os.path.exists(cpath) and not os.environ.get("VERIF_NOCACHE"):
        with open(cpath) as f:
            return json.load(f)
    gen_harness.main()
    bins = ensure_harness(["k3"])
    r = random.Random(seed * 577 + 3)
    per_chain = 10 if tier == "quick" else 300
    cases, meta = [], []
    cid = 0
    for src in SOURCES:
        for ch in lazy_chains(src):
            for _ in range(per_chain):
                line, style, inp = gen_case(r, cid, src, ch, tier)
                cases.append(line)
                meta.append((style, inp))
                cid += 1
    # computations with an eager (materialising) transformation: both runs are driven by the same pick
    # list (the eager stage at element granularity); by theorem the value and the call multisets do
    # not depend on the schedule, so they are compared with the model's round-robin run
    for src in (["vec", "iterx"] if tier == "quick" else ["vec", "iterx", "iteru", "slice"]):
        for ch in eager_chains(src):
            for _ in range(8 if tier == "quick" else per_chain // 3):
                # order-sensitive terminals, enough elements, adversarial (non-random) styles
                for _try in range(200):
                    line, style, inp = gen_case(r, cid + 20000, src, ch, tier)
                    t0 = k3.fields(line)["term"].split(":")[0]
                    if len(inp) >= 8 and t0 in ("cv", "cs", "ci", "first", "find", "cx", "cnt", "red") and style != "random":
                        break
                cases.append(line)
                meta.append(("eager_" + style, inp))
                cid += 1
    for (line, style, inp) in long_chunk_cases(r, cid, tier):
        cases.append(line)
        meta.append((style, inp))
    for (line, style, inp) in designed_cases(r, cid + 100, tier):
        cases.append(line)
        meta.append((style, inp))
    for (line, style, inp) in panic_cases(r, cid + 5000, tier):
        cases.append(line)
        meta.append((style, inp))
    rc1, impl, err1 = k3.parallel_run(bins["k3"], [], cases, shards=8)
    mcases = [(c.replace(" macro=1", "").replace("fuel=0", "fuel=100000") if st.startswith("eager_") else c)
              for c, (st, _) in zip(cases, meta)]
    rc2, model, err2 = k3.parallel_run(DRIVER, ["k3"], mcases, shards=16)
    res = {"total": len(cases), "mismatch": {}, "dist": {}, "samples": [], "errors": [], "nontrivial": 0,
           "inconclusive": 0}
    if rc1 != 0:
        res["errors"].append("k3 harness (scheduler mode): rc=%d %s" % (rc1, err1[-300:]))
    if rc2 != 0:
        res["errors"].append("model driver: rc=%d %s" % (rc2, err2[-300:]))

    def mism(kind, c, a, b, term, style):
        res["mismatch"].setdefault(kind, [])
        if len(res["mismatch"][kind]) < 200:
            res["mismatch"][kind].append({"case": c[:400000], "impl": a, "model": b, "term": term, "style": style})

    for c, a, m, (style, inp) in zip(cases, impl, model, meta):
        cf, af, mf = k3.fields(c), k3.fields(a), k3.fields(m)
        term = cf["term"].split(":")[0]
        res["dist"]["style_" + style] = res["dist"].get("style_" + style, 0) + 1
        res["dist"]["term_" + term] = res["dist"].get("term_" + term, 0) + 1
        if a == "<skipped>":
            continue
        if "res" not in af or "res" not in mf:
            mism("run", c, a[:200], m[:200], term, style)
            continue
        if af["res"] == "unsupported":
            continue
        if style.startswith("eager_"):
            if af.get("sched_exhausted") == "1" or mf.get("complete") != "1":
                res["inconclusive"] += 1
                continue
            ar, mr = af["res"], mf["res"]
            if ar.startswith("B:") and mr.startswith("B:"):
                ar, mr = sorted(ar[2:].split(",")), sorted(mr[2:].split(","))
            if ar != mr:
                mism("result", c, af["res"], mf["res"], term, style)
            if k3.multiset(af["clog"]) != k3.multiset(mf["clog"]):
                mism("calls", c, "construction: " + af["clog"][:300], "construction: " + mf["clog"][:300], term, style)
            if term not in ("find", "findix", "first", "firstix", "any", "all") and k3.multiset(af["calls"]) != k3.multiset(mf["calls"]):
                mism("calls", c, af["calls"][:300], mf["calls"][:300], term, style)
            res["nontrivial"] += 1
            continue
        if mf.get("sites", "-") != "-":
            continue            # for_each on a filtered flat_map materialises first: two runs, not replayed here
        if af.get("sched_exhausted") == "1" or mf.get("complete") != "1":
            res["inconclusive"] += 1
            continue
        if af["res"] != mf["res"]:
            mism("result", c, af["res"], mf["res"], term, style)
        # spawn sequence and chunk sizes
        runs = [] if af["runs"] == "-" else af["runs"].split("|")
        if len(runs) == 1:
            t = runs[0].split(":")
            isp, isz = t[5][7:], t[6][5:].replace("/", ",")
            if isp != mf["spawned"]:
                mism("spawned", c, isp, mf["spawned"], term, style)
            if isz != mf["chunks"]:
                mism("chunks", c, isz, mf["chunks"], term, style)
        # which worker processed which positions, in which order
        pos = {v: i for i, v in enumerate(inp)}
        iseen = {}
        if af["tcalls"] != "-":
            for part in af["tcalls"].split("|"):
                t, calls = part.split(">")
                iseen[int(t)] = [pos.get(int(x.split(":")[1]), -1) for x in calls.split(",") if x.startswith("2:")]
        mseen = [] if mf["seen"] == "-" else [([] if p == "-" else [int(x) for x in p.split(",")]) for p in mf["seen"].split("|")]
        iseen_l = [iseen.get(k + 1, []) for k in range(len(mseen))]
        if iseen_l != mseen or any(k > len(mseen) for k in iseen):
            mism("seen", c, json.dumps(iseen_l), json.dumps(mseen), term, style)
        # every closure call, as a multiset (the interleaving is fixed, so this is exact even for find)
        if k3.multiset(af["calls"]) != k3.multiset(mf["calls"]):
            mism("calls", c, af["calls"][:300], mf["calls"][:300], term, style)
        if len(mseen) > 1 and sum(1 for x in mseen if x) > 1:
            res["nontrivial"] += 1
        if len(res["samples"]) < 4 and len(mseen) > 2 and style != "random":
            res["samples"].append({"style": style, "case": c[:260] + "...", "impl_seen": iseen_l, "model_seen": mseen,
                                   "res": af["res"]})
    with open(cpath, "w") as f:
        json.dump(res, f)
    return res
