"""Writes /verif/MANIFEST.json from the table below (so that it stays valid and in step with lib/checks.py)."""
import json
import os
import sys

sys.path.insert(0, os.path.dirname(os.path.abspath(__file__)))
VERIF = os.path.dirname(os.path.dirname(os.path.abspath(__file__)))

PROPS = [json.loads(l)["id"] for l in open(os.path.join(VERIF, "properties.jsonl"))]

# id -> (technique, level text, level note, design_ref)
CLAIMS = {}
NOT_YET = {}


def load():
    import claims
    return claims.CLAIMS, claims.NOT_APPLICABLE


def main():
    claims, na = load()
    checks = []
    for pid in PROPS:
        if pid not in claims:
            continue
        c = claims[pid]
        checks.append({
            "property_id": pid,
            "quick_cmd": "./bin/check %s --tier quick" % pid,
            "thorough_cmd": "./bin/check %s --tier thorough" % pid,
            "evidence_file": "/verif/evidence/%s.json" % pid,
            "replay_cmd_template": "./bin/check %s --replay {path}" % pid,
            "engine": "coq-model+correspondence",
            "level_claimed": {"category": "proof", "text": c["text"], "design_ref": c["design_ref"]},
            "level_note": c["note"],
            "technique": c["technique"],
        })
    m = {
        "version": 1,
        "setup_cmd": "./bin/setup",
        "hooks": {
            "guard": "cargo feature verif-hooks",
            "enable": "harness depends on orx-parallel = { path = \"/repo\", features = [\"verif-hooks\"] }",
            "baseline_off_cmd": "cd /repo && cargo nextest run --workspace --no-fail-fast --test-threads 8 --offline || cargo test --workspace --no-fail-fast --offline",
            "source_commits": ["7433579"],
            "add_only": True,
        },
        "engines": [{
            "name": "coq-model+correspondence",
            "path": "/verif/coq, /verif/ocaml, /verif/harness, /verif/lib",
            "serves_properties": [c["property_id"] for c in checks],
            "kind_free_text": "Coq 8.16 theorems over a hand-written executable Gallina model; model extracted to OCaml and run against the real crate (Rust harness, feature verif-hooks) on the same inputs/schedules",
        }],
        "checks": checks,
        "notes": "Fix commits in /repo: 83fec4b (C06), 346274c and 7a99298 (C15), 790562e (C14). Known findings: /verif/known_findings.json.",
        "not_applicable": [{"property_id": p, "reason": na[p]} for p in PROPS if p not in claims and p in na],
    }
    missing = [p for p in PROPS if p not in claims and p not in na]
    if missing:
        raise SystemExit("properties neither claimed nor not_applicable: %s" % missing)
    with open(os.path.join(VERIF, "MANIFEST.json"), "w") as f:
        json.dump(m, f, indent=1)
    print("MANIFEST.json: %d checks, %d not_applicable" % (len(checks), len(m["not_applicable"])))


if __name__ == "__main__":
    main()
