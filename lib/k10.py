"""K10: short-circuit terminals on an endless by-value iterator source (0, 1, 2, ...).
Checks termination (process timeout), the value against the model run on a long enough finite
prefix, and how much of the source was consumed (exactly up to the match in sequential mode;
a generous bound, independent of the 'remaining' input, in free-running parallel mode)."""
import json
import os
import random
import subprocess

import gen_harness
import k3
from vlib import CACHE, DRIVER, ENV, ensure_harness, harness_hash, model_hash, repo_hash

RCHAINS = ["", "M", "F", "MF", "X", "O"]                       # random stage parameters
CHAINS = RCHAINS + ["OFM", "FMF", "XF"]                       # grids with fixed stage parameters


def gen_cases(tier, seed):
    r = random.Random(seed * 31 + 5)
    n = 120 if tier == "quick" else 1200
    cases = []
    for cid in range(n):
        chain = r.choice(RCHAINS)
        m = r.choice([0, 1, 3, 17, 64, 200, 1000])
        stages = []
        fk, fr = None, None          # the chain keeps values v with v = fr (mod fk)
        for s in chain:
            if s == "M":
                stages.append("M:1:%d" % r.choice([0, 1, 5]))
            elif s == "F":
                fk, fr = r.choice([2, 3]), r.choice([0, 1])
                stages.append("F:%d:%d" % (fk, fr))
            elif s == "X":
                stages.append("X:%d:%d" % (r.choice([1, 2]), r.choice([1, 100000])))
            else:
                fk, fr = r.choice([2, 3]), r.choice([0, 1])
                stages.append("O:%d:%d:1:0" % (fk, fr))
        kind = r.choice(["find", "any", "all", "first", "find", "any"])
        if kind == "first" and chain in ("", "M", "X"):
            kind = "find"
        if kind == "all":
            term = "all:Fl:%d" % (m + 1)
        elif kind == "first":
            term = "first"
        else:
            # a sparse predicate: exactly one match in every window of 120000 values, the first
            # one near m -- so that workers other than the finder do not find matches of their own
            big = 120000
            target = m + 6 if fk is None else m + 6 + ((fr - (m + 6)) % fk)
            term = "%s:F:%d:%d" % (kind, big, target)
        nt = r.choice([1, 2, 3, 4, 8, 0])
        cs = r.choice([("C", 0), ("C", 1), ("C", 2), ("C", 8), ("C", 64), ("Cm", 1), ("Cm", 4), ("Cm", 32)])
        ops = ["N:%d" % nt, "%s:%d" % cs] + stages + ["%s:%d" % cs, "N:%d" % nt]
        cases.append({"id": cid, "chain": chain, "ops": ops, "term": term, "nt": nt, "cs": cs, "m": m, "src": "endless", "big": 0})
    # sequential grid: every chain with explicit chunk sizes; nothing beyond the first match may be pulled
    cid = n
    for chain in CHAINS:
        for cs in [("C", 2), ("C", 8), ("Cm", 4), ("C", 64), ("C", 0)]:
            for m in [0, 3, 17]:
                stages = [{"M": "M:1:0", "F": "Fa", "X": "X:2:100000", "O": "O:2:0:1:0"}[s_] for s_ in chain]
                target = m + 6 + ((m + 6) % 2 if "O" in chain else 0)
                kind = ["find", "any", "find"][(cid + m) % 3]
                term = "%s:F:120000:%d" % (kind, target)
                ops = ["N:1", "%s:%d" % cs] + stages + ["%s:%d" % cs, "N:1"]
                cases.append({"id": cid, "chain": chain, "ops": ops, "term": term, "nt": 1, "cs": cs, "m": m, "src": "endless", "big": 0})
                cid += 1
    # the match is the very first element (what a worker pulls first)
    for chain in CHAINS:
        for (nt, cs) in [(2, ("C", 2)), (4, ("C", 4)), (3, ("Cm", 2)), (1, ("C", 3))]:
            stages = [{"M": "M:1:0", "F": "Fa", "X": "X:2:100000", "O": "O:2:0:1:0"}[s_] for s_ in chain]
            term = "%s:F:120000:0" % (["find", "any"][cid % 2])
            ops = ["N:%d" % nt, "%s:%d" % cs] + stages + ["%s:%d" % cs, "N:%d" % nt]
            cases.append({"id": cid, "chain": chain, "ops": ops, "term": term, "nt": nt, "cs": cs, "m": 0, "src": "endless", "big": 0})
            cid += 1
    # the same chains in parallel on the endless source
    for chain in CHAINS:
        for (nt, cs) in [(4, ("C", 1)), (3, ("C", 4)), (0, ("Cm", 2))]:
            m = [3, 40, 200][cid % 3]
            stages = [{"M": "M:1:0", "F": "Fa", "X": "X:2:100000", "O": "O:2:0:1:0"}[s_] for s_ in chain]
            target = m + 6 + ((m + 6) % 2 if "O" in chain else 0)
            term = "%s:F:120000:%d" % (["find", "any"][cid % 2], target)
            ops = ["N:%d" % nt, "%s:%d" % cs] + stages + ["%s:%d" % cs, "N:%d" % nt]
            cases.append({"id": cid, "chain": chain, "ops": ops, "term": term, "nt": nt, "cs": cs, "m": m, "src": "endless", "big": 0})
            cid += 1
    # very long sources of known length: the work after the match must not depend on what remains
    for chain in CHAINS:
        for big in ([1 << 20, 1 << 24] if tier == "quick" else [1 << 20, 1 << 22, 1 << 24, 1 << 26]):
            for (nt, cs) in [(8, ("Cm", 1)), (8, ("Cm", 16)), (0, ("Cm", 64)), (6, ("Cm", 4)), (8, ("C", 32))]:
                m = r.choice([100, 1000, 5000])
                stages = [{"M": "M:1:0", "F": "Fa", "X": "X:1:0", "O": "O:2:0:1:0"}[s_] for s_ in chain]
                target = m + ((m % 2) if "O" in chain else 0)
                # a single match in the whole range
                term = "%s:F:%d:%d" % (r.choice(["find", "any"]), 1 << 40, target)
                ops = ["N:%d" % nt, "%s:%d" % cs] + stages + ["%s:%d" % cs, "N:%d" % nt]
                cases.append({"id": cid, "chain": chain, "ops": ops, "term": term, "nt": nt, "cs": cs, "m": m, "src": "bigrange", "big": big})
                cid += 1
    return cases


def impl_line(c):
    if c["src"] == "bigrange":
        return "id=%d shape=%s known=1 in=- ops=%s term=%s avail=%d sched=- fuel=0 big=%d" % (
            c["id"], gen_harness.shape_name("bigrange", c["chain"]), ";".join(c["ops"]), c["term"], k3.AVAIL, c["big"])
    return "id=%d shape=%s known=0 in=- ops=%s term=%s avail=%d sched=- fuel=0" % (
        c["id"], gen_harness.shape_name("endless", c["chain"]), ";".join(c["ops"]), c["term"], k3.AVAIL)


def model_line(c, prefix_len, seq=False):
    ops = list(c["ops"])
    if seq:
        ops[-1] = "N:1"
    return "id=%d shape=%s known=0 in=%s ops=%s term=%s avail=%d sched=- fuel=1000000" % (
        c["id"], gen_harness.shape_name("endless", c["chain"]), ",".join(map(str, range(prefix_len))), ";".join(ops),
        c["term"], k3.AVAIL)


def run_k10(tier, seed):
    os.makedirs(CACHE, exist_ok=True)
    key = "k10-%s-%s-%s-%s-%d" % (repo_hash(), model_hash(), harness_hash(), tier, seed)
    cpath = os.path.join(CACHE, key + ".json")
    if os.path.exists(cpath) and not os.environ.get("VERIF_NOCACHE"):
        with open(cpath) as f:
            return json.load(f)
    gen_harness.main()
    bins = ensure_harness(["k3"])
    cases = gen_cases(tier, seed)
    out = {"total": len(cases), "fail": [], "mismatch": [], "dist": {}, "samples": [], "errors": [], "nontrivial": 0}
    # the model on a finite prefix that certainly contains the match, sequentially (no schedule):
    # gives the expected value and the number of source elements a sequential run consumes
    mlines = [model_line(c, 3 * c["m"] + 60, seq=True) for c in cases]
    rc, mout, err = k3.parallel_run(DRIVER, ["k3"], mlines, shards=16)
    if rc != 0:
        out["errors"].append("model driver failed: %s" % err[-300:])
    # the implementation: one process per shard with a timeout; a shard that times out is re-run
    # case by case to name the case that does not terminate
    ilines = [impl_line(c) for c in cases]
    iout = [None] * len(cases)
    shard = 30
    n_tmo = 0
    for b in range(0, len(cases), shard):
        chunk = ilines[b:b + shard]
        if n_tmo >= 5:
            # non-termination is established; the rest is not run
            for k in range(len(chunk)):
                iout[b + k] = "<skipped>"
            continue
        try:
            p = subprocess.run([bins["k3"]], input="\n".join(chunk) + "\n", stdout=subprocess.PIPE,
                               stderr=subprocess.PIPE, text=True, errors="replace", env=ENV, timeout=120)
            got = p.stdout.split("\n")[:-1]
            for k, g in enumerate(got[:len(chunk)]):
                iout[b + k] = g
        except subprocess.TimeoutExpired:
            for k, line in enumerate(chunk):
                try:
                    p = subprocess.run([bins["k3"]], input=line + "\n", stdout=subprocess.PIPE,
                                       stderr=subprocess.PIPE, text=True, errors="replace", env=ENV, timeout=20)
                    g = p.stdout.split("\n")[:-1]
                    iout[b + k] = g[0] if g else "<no output>"
                except subprocess.TimeoutExpired:
                    iout[b + k] = "<timeout>"
                    n_tmo += 1
                    if n_tmo >= 5:
                        for k2 in range(k + 1, len(chunk)):
                            iout[b + k2] = "<skipped>"
                        break
    for c, a, m in zip(cases, iout, mout):
        line = impl_line(c)
        if a == "<skipped>":
            continue
        if a is None or a == "<timeout>" or a.startswith("<"):
            out["fail"].append({"case": line, "what": "does not terminate on an endless source although a match exists (timeout)"
                                if a == "<timeout>" else "no output", "match_position_hint": c["m"]})
            continue
        af, mf = k3.fields(a), k3.fields(m)
        if af.get("res") != mf.get("res"):
            out["mismatch"].append({"case": line, "impl": af.get("res"), "model": mf.get("res")})
            if af.get("res") == "P":
                out["fail"].append({"case": line, "what": "panicked / ran away on an endless source", "observed": a[:300]})
            continue
        consumed = int(af.get("endless", "0"))
        if c["src"] == "bigrange":
            # first-stage evaluations (count-only mode); without a stage, evaluations of the predicate
            nc = [int(x) for x in af.get("ncalls", "0").split("/")]
            consumed = nc[2] if c["chain"] else nc[len(c["ops"])]
        # source elements a sequential run consumes = calls of the first stage in the sequential log
        seqlog = [] if mf.get("seqlog", "-") == "-" else mf["seqlog"].split(",")
        first_stage = min((int(x.split(":")[0]) for x in seqlog), default=None)
        seq_consumed = sum(1 for x in seqlog if int(x.split(":")[0]) == first_stage) if seqlog else 1
        w = c["nt"] if c["nt"] >= 1 else k3.AVAIL
        ch = c["cs"][1] if c["cs"][1] >= 1 else 1
        out["dist"]["mode_" + ("seq" if c["nt"] == 1 else "par")] = out["dist"].get("mode_" + ("seq" if c["nt"] == 1 else "par"), 0) + 1
        if c["nt"] == 1:
            if consumed != seq_consumed:
                out["fail"].append({"case": line, "what": "sequential mode evaluated elements beyond the first match",
                                    "consumed": consumed, "sequential_chain_consumes": seq_consumed})
        else:
            bound = 4 * seq_consumed + 16 * w * ch + 2000
            if c["src"] == "bigrange":
                # the chunk size of late workers may have grown to (done so far) / (workers so far)
                bound = 4 * seq_consumed + 16 * w * (ch + seq_consumed) + 2000
                out["dist"]["long_known_length"] = out["dist"].get("long_known_length", 0) + 1
            if consumed > bound:
                out["fail"].append({"case": line, "what": "work after the match is not bounded by a few chunks per thread",
                                    "consumed": consumed, "match_reached_after": seq_consumed, "generous_bound": bound})
        if c["m"] > 0:
            out["nontrivial"] += 1
        if len(out["samples"]) < 4 and c["m"] >= 17 and c["nt"] != 1:
            out["samples"].append({"case": line, "impl_res": af.get("res"), "consumed": consumed, "seq_consumed": seq_consumed})
    with open(cpath, "w") as f:
        json.dump(out, f)
    return out
