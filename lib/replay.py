"""./bin/check <id> --replay <file>: re-runs the recorded failing case on the implementation
and on the model and says whether they (still) differ."""
import json
import subprocess

import gen_harness
import k3
from vlib import DRIVER, ENV, ensure_coq, ensure_harness


def find_case(d):
    """returns (kind, case line) from a replay file written by the checks"""
    inp = d.get("input", {})
    if isinstance(inp, str) and inp.startswith("MISMATCH"):
        return "k7", inp
    if isinstance(inp, dict):
        if "k1_case" in inp:
            return "k1", inp["k1_case"]
        if "case" in inp:
            return "k3", inp["case"]
    for m in d.get("mismatches", []) or []:
        if isinstance(m, dict) and "case" in m:
            return "k3", m["case"]
        if isinstance(m, list) and m:
            return "k1", m[0]
    return None, None


def main(prop, path):
    d = json.load(open(path))
    kind, case = find_case(d)
    print("replay of %s (%s)" % (path, d.get("what", "")))
    if case is None:
        print("no concrete case in this replay: %s" % d.get("theorem_or_correspondence", "?"))
        return 1
    ensure_coq()
    gen_harness.main()
    if kind == "k7":
        bins = ensure_harness(["k7"])
        toks = [t for t in case.split() if t.startswith("seed=") or t.startswith("n=")]
        out = subprocess.run([bins["k7"]], input=" ".join(toks) + "\n", stdout=subprocess.PIPE, text=True, env=ENV).stdout
        print("case : %s" % case[:600])
        print("now  : %s" % out.strip()[:1500])
        return 1 if "MISMATCH" in out else 0
    if kind == "k1":
        bins = ensure_harness(["k1"])
        a = subprocess.run([bins["k1"]], input=case + "\n", stdout=subprocess.PIPE, text=True, env=ENV).stdout.strip()
        b = subprocess.run([DRIVER, "k1"], input=case + "\n", stdout=subprocess.PIPE, text=True, env=ENV).stdout.strip()
        print("case : %s\nimpl : %s\nmodel: %s" % (case, a, b))
        return 0 if a == b else 1
    bins = ensure_harness(["k3"])
    shape = k3.fields(case).get("shape", "")
    tok = shape in [gen_harness.shape_name(s, c) for (s, c) in gen_harness.tok_shapes()] and "created=" in json.dumps(d)
    args = ["tok"] if tok else []
    try:
        a = subprocess.run([bins["k3"]] + args, input=case + "\n", stdout=subprocess.PIPE, stderr=subprocess.PIPE,
                           text=True, errors="replace", env=ENV, timeout=120)
        aout = a.stdout.strip() or "<no output rc=%s>" % a.returncode
    except subprocess.TimeoutExpired:
        aout = "<timeout>"
    mcase = case
    if " in=- " in case and ("endless" in shape or "bigrange" in shape):
        # the model runs on a finite prefix that contains the match (K10)
        mcase = case.replace(" in=- ", " in=%s " % ",".join(map(str, range(16000)))).replace("fuel=0", "fuel=1000000")
        mcase = mcase.replace("shape=bigrange_", "shape=endless_").replace("known=1", "known=0")
        mcase = " ".join(t for t in mcase.split() if not t.startswith("big="))
    _, mout, _ = k3.run_bin(DRIVER, ["k3"], [mcase])
    mout = mout[0] if mout else "<no output>"
    print("case : %s" % case[:2000])
    print("impl : %s" % aout[:2000])
    print("model: %s" % mout[:2000])
    af, mf = k3.fields(aout), k3.fields(mout)
    same = af.get("res") == mf.get("res") and af.get("params", "").split("|")[0] == mf.get("params") \
        and k3.multiset(af.get("clog", "-")) == k3.multiset(mf.get("clog", "-"))
    if "bigrange" in shape or "endless" in shape:
        print("first-stage evaluations / source elements consumed: ncalls=%s endless=%s" % (af.get("ncalls"), af.get("endless")))
    print("verdict: %s" % ("value/params/construction log agree now" if same else "still differs"))
    return 0 if same else 1
