"""K3: whole computations (source + chain + terminal + parameters) run on the real crate
(free-running threads) and on the extracted model (under a seeded schedule); results, parameters,
computation types, construction-time calls and call multisets are compared, and the properties'
direct oracles are evaluated on the implementation's observations."""
import json
import os
import random
import subprocess
from collections import Counter

import gen_harness
from vlib import CACHE, DRIVER, ENV, ensure_harness, harness_hash, model_hash, repo_hash

AVAIL = os.cpu_count() or 16

MAPS = [lambda r: "M:%d:%d" % (r.choice([1, 2, 3, -1, 5]), r.randrange(-3, 8)), lambda r: "Mm:%d" % r.choice([2, 3, 5, 7])]
FILS = [lambda r: "F:%d:%d" % ((lambda m: (m, r.randrange(m)))(r.choice([2, 3, 4, 5]))),
        lambda r: "Fl:%d" % r.randrange(-5, 30), lambda r: "Fg:%d" % r.randrange(-5, 45), lambda r: "Fa"]
FLATS = [lambda r: "X:%d:%d" % (r.choice([0, 1, 2, 3]), r.choice([1, 10, 100])), lambda r: "Xm:%d" % r.choice([2, 3, 4])]
FMS = [lambda r: "O:%d:%d:%d:%d" % ((lambda m: (m, r.randrange(m), r.choice([1, 2, -1]), r.randrange(0, 5)))(r.choice([2, 3, 4])))]


def rnd_filf(r):
    return r.choice(FILS)(r)


def item_type(source, chain):
    t = gen_harness.SOURCES[source][1]
    for s in chain:
        if s in "MXO":
            t = "val"
    return t


def gen_input(r, source, n):
    if source == "range":
        lo = r.randrange(0, 6)
        return list(range(lo, lo + n))
    if r.random() < 0.15:
        return sorted(r.randrange(-20, 41) for _ in range(n))
    return [r.randrange(-20, 41) for _ in range(n)]


TERMS = ["cv", "cs", "cx", "ci", "cnt", "fe", "red", "find", "findix", "first", "firstix", "any", "all",
         "sum", "min", "max", "fold", "minby", "maxby", "minkey", "maxkey"]
RED_FAMILY = {"red", "sum", "min", "max", "fold", "minby", "maxby", "minkey", "maxkey"}


def gen_case(r, cid, source, chain, lens, big=False):
    n = r.choice(lens)
    inp = gen_input(r, source, n)
    stages = []
    for s in chain:
        stages.append({"M": r.choice(MAPS), "F": r.choice(FILS), "X": r.choice(FLATS), "O": r.choice(FMS)}[s](r))
    nts = [0, 1, 2, 3, 4, 5, 8, 16]
    css = [("C", 0), ("C", 1), ("C", 2), ("C", 3), ("C", 7), ("C", 64), ("Cm", 1), ("Cm", 2), ("Cm", 5), ("Cm", 64)]
    nt1, nt2 = r.choice(nts), r.choice(nts)
    if r.random() < 0.5:
        nt1 = nt2
    cs1, cs2 = r.choice(css), r.choice(css)
    if r.random() < 0.5:
        cs1 = cs2
    kind, opaque, eager = gen_harness.analyse(chain)
    has_ix = (not opaque) and kind in ("Empty", "Map", "Filter", "MapFilter")
    ty = item_type(source, chain)
    term = r.choice(TERMS)
    if term in ("findix", "firstix") and not has_ix:
        term = "find" if term == "findix" else "first"
    if term in ("sum", "fold") and ty != "val":
        term = "min"
    if term == "fold":
        term = "fold:%d:%s" % (r.randrange(-5, 6), r.choice(["add", "xor", "min", "max"] if nt2 != 1 else ["add", "sub", "poly"]))
    elif term in ("minkey", "maxkey"):
        term = "%s:%d" % (term, r.choice([2, 3, 5, 7]))
    if term == "red":
        if ty != "val":
            op = r.choice(["min", "max"])
        elif nt2 == 1:
            op = r.choice(["add", "xor", "min", "max", "sub", "poly"])
        else:
            op = r.choice(["add", "xor", "min", "max"])
        term = "red:" + op
    elif term == "ci":
        old = [r.randrange(0, 50) for _ in range(r.choice([0, 1, 3, 9]))]
        # targets: Vec, SplitVec, full FixedVec, FixedVec with spare room, Vec with some spare capacity
        term = "ci:%s:%s" % (r.choice("vsfgw"), "/".join(map(str, old)) if old else "-")
    elif term in ("find", "findix", "any", "all"):
        term = term + ":" + rnd_filf(r)
    lead = ["N:%d" % nt1, "%s:%d" % cs1]
    trailing = ["%s:%d" % cs2, "N:%d" % nt2]
    if r.random() < 0.3:
        lead.reverse()                 # chunk_size before num_threads on the source
    if r.random() < 0.5:
        trailing.reverse()             # num_threads before chunk_size after the stages
    ops = lead + stages + trailing
    if r.random() < 0.3:
        # parameters set on the source only: they must govern everything downstream
        ops = ops[:-2]
        if term.startswith("red:") and nt1 != 1 and term.split(":")[1] in ("sub", "poly"):
            term = "red:add"
        if term.startswith("fold:") and nt1 != 1 and term.split(":")[2] in ("sub", "poly"):
            term = "fold:0:add"
    known = 1 if gen_harness.SOURCES[source][2] else 0
    sched = [r.randrange(0, 6) for _ in range(r.choice([0, 5, 20, 60]))]
    line = "id=%d shape=%s known=%d in=%s ops=%s term=%s avail=%d sched=%s fuel=100000" % (
        cid, gen_harness.shape_name(source, chain), known,
        ",".join(map(str, inp)) if inp else "-", ";".join(ops), term, AVAIL,
        ",".join(map(str, sched)) if sched else "-")
    return line + pre_field(r, source, n)


def pre_field(r, source, n):
    """concurrent-iterator sources advanced before into_par(): how many elements were taken"""
    if source not in gen_harness.PRE_SOURCES:
        return ""
    return " pre=%d" % r.choice([0, 1, 2, 3, max(0, n // 2), max(0, n - 1), n, n + 1])


def carry(f):
    return (" pre=" + f["pre"]) if "pre" in f else ""


def apply_effin(cases, impl):
    """std-collection sources: the harness reports the order in which the collection's own
    sequential iterator yields; that sequence is the input of the model"""
    out = []
    for c, a in zip(cases, impl):
        src = fields(c)["shape"].split("_")[0]
        if src in gen_harness.EFFIN_SOURCES:
            af = fields(a)
            if "effin" in af:
                toks = c.split()
                toks = [("in=" + af["effin"]) if t.startswith("in=") else t for t in toks]
                c = " ".join(toks)
        out.append(c)
    return out


def corner_case(r, cid, source, chain, term, nt, cs, n, design, trail=True):
    """designed inputs: ascending values with filters that reject a prefix / a suffix / every other
    element, so that 'the first element a worker pulls is rejected' and 'a chunk is filtered out
    completely' happen on purpose"""
    inp = list(range(n)) if source != "range" else list(range(0, n))
    half = max(1, n // 2)
    stages = []
    for s in chain:
        if s == "M":
            stages.append("M:1:0")
        elif s == "F":
            stages.append({"prefix": "Fg:%d" % half, "suffix": "Fl:%d" % half, "alt": "F:2:1"}[design])
        elif s == "X":
            stages.append(["X:2:1000", "Xm:3", "X:1:0"][cid % 3])
        else:
            stages.append({"prefix": "O:2:1:1:0", "suffix": "O:3:0:1:0", "alt": "O:2:0:1:0"}[design])
    kind, opaque, eager = gen_harness.analyse(chain)
    has_ix = (not opaque) and kind in ("Empty", "Map", "Filter", "MapFilter")
    ty = item_type(source, chain)
    if term in ("findix", "firstix") and not has_ix:
        term = "find" if term == "findix" else "first"
    if term == "red":
        term = "red:" + ("min" if ty != "val" else r.choice(["add", "min", "xor"]))
    elif term == "ci":
        term = "ci:%s:%s" % ("vsfgw"[cid % 5], "7/8/9")
    elif term.startswith("ci:") or term.startswith("red:") or term.startswith("fold:"):
        pass
    elif term in ("minkey", "maxkey"):
        term = term + ":3"
    elif term in ("find", "findix", "any"):
        term = term + ":" + r.choice(["Fg:%d" % half, "Fa", "F:3:2"])
    elif term == "all":
        term = "all:" + r.choice(["Fl:%d" % half, "Fa"])
    lead = ["N:%d" % nt, "%s:%d" % cs]
    trailing = ["%s:%d" % cs, "N:%d" % nt] if trail else []
    if cid % 2:
        trailing.reverse()             # both orders of the two setters occur on every shape
    if cid % 4 == 3:
        lead.reverse()
    ops = lead + stages + trailing
    known = 1 if gen_harness.SOURCES[source][2] else 0
    return "id=%d shape=%s known=%d in=%s ops=%s term=%s avail=%d sched=%s fuel=100000" % (
        cid, gen_harness.shape_name(source, chain), known, ",".join(map(str, inp)) if inp else "-",
        ";".join(ops), term, AVAIL, ",".join(str(r.randrange(0, 6)) for _ in range(12))) + pre_field(r, source, n)


def gen_cases(tier, seed, shapes=None, per_shape=None):
    r = random.Random(seed * 7919 + 13)
    lens = [0, 1, 2, 3, 4, 5, 7, 8, 13, 21, 40]
    if per_shape is None:
        per_shape = 24 if tier == "quick" else 500
    cases = []
    cid = 0
    # slowed elements, so that every worker certainly folds several values and the caller certainly
    # combines several partial results (the C08 known finding is then observed on every run)
    if shapes is None:
        for (nt, n) in [(2, 24), (3, 40), (4, 40)]:
            for term in ["red:add", "fold:0:add", "maxby"]:
                cases.append("id=%d shape=vec_M known=1 in=%s ops=N:%d;C:1;M:1:0;C:1;N:%d term=%s avail=%d sched=- fuel=100000 delay=300" % (
                    cid, ",".join(map(str, range(n))), nt, nt, term, AVAIL))
                cid += 1
    for (src, ch) in gen_harness.all_shapes():
        if src in ("endless", "bigrange"):
            continue
        if shapes is not None and gen_harness.shape_name(src, ch) not in shapes:
            continue
        for k in range(per_shape):
            ls = lens if k % 8 else [100, 257, 1000]
            cases.append(gen_case(r, cid, src, ch, ls))
            cid += 1
        # collect_into a target that already holds elements, with enough new ones to need growth
        # (SplitVec fragments, FixedVec/Vec spare room smaller than the output)
        if src in ("vec", "iterx", "iteru", "slice") and ch in ("", "M", "F", "X", "O", "MF"):
            for tg in "svfgw":
                for n_ in [5, 60, 130]:
                    cases.append(corner_case(r, cid, src, ch, "ci:%s:1/2/3/4/5/6/7/8/9" % tg, 4, ("C", 3), n_, "alt"))
                    cid += 1
        # sequential reduce / fold with operators that are neither associative nor commutative: the
        # value is the left fold over the sequential output, whatever the chain does in between
        if item_type(src, ch) == "val" and src not in gen_harness.PRE_SOURCES:
            for term in ["red:poly", "red:sub", "fold:3:poly"]:
                cases.append(corner_case(r, cid, src, ch, term, 1, ("C", [1, 2, 5][cid % 3]), 24, "alt"))
                cid += 1
        # by-key extrema with certain ties, sequentially and in parallel (ascending input, key = value mod 3)
        if src in ("vec", "slice", "iterx") and len(ch) <= 1 and "X" not in ch:
            for term in ["maxkey", "minkey"]:
                for nt in [1, 3]:
                    cases.append(corner_case(r, cid, src, ch, term, nt, ("C", 2), 24, "alt"))
                    cid += 1
        # astronomically large exact chunk sizes on sources of known length (the shared position must not wrap)
        if gen_harness.SOURCES[src][2] and len(ch) <= 1 and src not in gen_harness.PRE_SOURCES:
            for term in ["cv", "cx", "cnt", "red"]:
                for big in [2 ** 62, 2 ** 63, 2 ** 64 - 1]:
                    cases.append(corner_case(r, cid, src, ch, term, 4, ("C", big), 24, "alt"))
                    cid += 1
        if not ch:
            continue
        # corner grid
        _, _, eager = gen_harness.analyse(ch)
        if eager:
            # parameters set on the source only must govern what runs after an eager site: sequential
            # stays sequential (exact call order), a thread bound stays a thread bound
            for term in ["cv", "cnt", "red", "fe", "find", "cx"]:
                for (nt, cs) in [(1, ("C", 2)), (2, ("C", 3))]:
                    cases.append(corner_case(r, cid, src, ch, term, nt, cs, 24, "alt", trail=False))
                    cid += 1
        terms = ["cv", "cx", "cnt", "red", "find", "first", "any", "all", "ci", "findix"]
        designs = ["prefix", "suffix", "alt"]
        k = 0
        settings = [(4, ("C", 1)), (3, ("C", 2)), (0, ("C", 0))]
        if src in gen_harness.PRE_SOURCES:
            settings = settings + [(1, ("C", 3))]          # the sequential path of a pre-advanced source
        for term in terms:
            # short-circuit terminals also in sequential mode: nothing beyond the first match is evaluated
            extra = [(1, ("C", 2))] if term in ("find", "first", "any", "all", "findix") and src not in gen_harness.PRE_SOURCES else []
            for (nt, cs) in settings + extra:
                k += 1
                n = 120 if (eager and nt == 4) else 24
                for design in (designs if src == "vec" else [designs[k % 3]]):
                    cases.append(corner_case(r, cid, src, ch, term, nt, cs, n, design))
                    cid += 1
    return cases


def fields(line):
    d = {}
    for tok in line.split():
        i = tok.find("=")
        if i > 0:
            d[tok[:i]] = tok[i + 1:]
    return d


def multiset(s):
    return Counter() if s in ("-", "") else Counter(s.split(","))


def full_log_case(line):
    """the same computation with the terminal's predicate as one more filter stage, counted:
    its call multiset is what a full sequential evaluation would call"""
    f = fields(line)
    t = f["term"].split(":")
    parts = f["ops"].split(";")
    # a full terminal's call multiset does not depend on the schedule (theorem C05_calls_full)
    if t[0] in ("find", "findix", "any", "all"):
        parts.append(":".join(t[1:]))
    elif t[0] == "fe":
        parts.append("M:1:0")
    return "id=%s shape=%s known=%s in=%s ops=%s term=cnt avail=%s sched=- fuel=100000" % (
        f["id"], f["shape"], f["known"], f["in"], ";".join(parts), f["avail"]) + carry(f)


def run_bin(path, args, lines, timeout=3000):
    cmd = [path] + args
    if path == DRIVER:
        cmd = ["sh", "-c", "ulimit -s unlimited 2>/dev/null || ulimit -s 1000000 2>/dev/null; exec \"$0\" \"$@\"", path] + args
    p = subprocess.run(cmd, input="\n".join(lines) + "\n", stdout=subprocess.PIPE,
                       stderr=subprocess.PIPE, text=True, errors="replace", env=ENV, timeout=timeout)
    return p.returncode, p.stdout.split("\n")[:-1], p.stderr


def run_watched(path, args, lines, case_timeout=90, max_hangs=3):
    """runs the harness on the case lines, one result line per case, watching progress: a case that
    prints nothing for [case_timeout] seconds is recorded as <timeout>, the process is killed and
    the rest continues in a new process; after [max_hangs] such cases the rest is <skipped>"""
    import queue
    import threading
    out = []
    i = 0
    hangs = 0
    err = ""
    while i < len(lines):
        p = subprocess.Popen([path] + list(args), stdin=subprocess.PIPE, stdout=subprocess.PIPE, stderr=subprocess.PIPE,
                             text=True, errors="replace", env=ENV)
        q = queue.Queue()
        rest = lines[i:]

        def feed(proc=p, data="\n".join(rest) + "\n"):
            try:
                proc.stdin.write(data)
                proc.stdin.close()
            except (BrokenPipeError, ValueError, OSError):
                pass

        def read(proc=p, qq=q):
            for ln in proc.stdout:
                qq.put(ln.rstrip("\n"))
            qq.put(None)

        def read_err(proc=p):
            try:
                proc.stderr.read()
            except (ValueError, OSError):
                pass
        for fn in (feed, read, read_err):
            threading.Thread(target=fn, daemon=True).start()
        while True:
            try:
                item = q.get(timeout=case_timeout)
            except queue.Empty:
                p.kill()
                out.append("<timeout>")
                i += 1
                hangs += 1
                break
            if item is None:
                rc = p.wait()
                if i < len(lines):
                    # the process ended before printing this case's line
                    out.append("<crash rc=%s>" % rc)
                    err += "harness ended with rc=%s at case %s\n" % (rc, lines[i][:160])
                    i += 1
                break
            out.append(item)
            i += 1
        if hangs >= max_hangs and i < len(lines):
            out += ["<skipped>"] * (len(lines) - i)
            break
    return (0 if not err else 1), out[:len(lines)], err


def parallel_run(path, args, lines, shards=8):
    """runs the binary on shards of the case list side by side"""
    import concurrent.futures
    n = len(lines)
    if n == 0:
        return 0, [], ""
    runner = run_bin if path == DRIVER else run_watched
    size = (n + shards - 1) // shards
    chunks = [lines[i:i + size] for i in range(0, n, size)]
    outs = [None] * len(chunks)
    with concurrent.futures.ThreadPoolExecutor(max_workers=shards) as ex:
        futs = {ex.submit(runner, path, args, ch): i for i, ch in enumerate(chunks)}
        for fu in concurrent.futures.as_completed(futs):
            outs[futs[fu]] = fu.result()
    rc = max(o[0] for o in outs)
    allout = []
    err = ""
    for o, ch in zip(outs, chunks):
        got = o[1]
        if len(got) != len(ch):
            got = got + ["<missing>"] * (len(ch) - len(got))
            rc = rc or 1
        allout += got
        err += o[2][-500:]
    return rc, allout, err


def run_k3(tier, seed, shapes=None, per_shape=None, tag="all"):
    os.makedirs(CACHE, exist_ok=True)
    key = "k3-%s-%s-%s-%s-%s-%d" % (tag, repo_hash(), model_hash(), harness_hash(), tier, seed)
    cpath = os.path.join(CACHE, key + ".json")
    if os.path.exists(cpath) and not os.environ.get("VERIF_NOCACHE"):
        with open(cpath) as f:
            return json.load(f)
    gen_harness.main()
    bins = ensure_harness(["k3"])
    cases = gen_cases(tier, seed, shapes, per_shape)
    rc1, impl, err1 = parallel_run(bins["k3"], [], cases, shards=4)
    cases = apply_effin(cases, impl)
    rc2, model, err2 = parallel_run(DRIVER, ["k3"], cases, shards=16)
    full_cases = [full_log_case(c) for c in cases]
    rc3, full, err3 = parallel_run(DRIVER, ["k3"], full_cases, shards=16)
    # by-key terminals: the survivors of the chain, to judge ties independently of any tie rule
    idx = [i for i, c in enumerate(cases) if fields(c)["term"].split(":")[0] in ("minkey", "maxkey")]
    surv_cases = []
    for i in idx:
        f = fields(cases[i])
        # the survivors of the chain: the sequential value of collect_vec
        seq_ops = ";".join("N:1" if o.startswith("N:") else o for o in f["ops"].split(";"))
        surv_cases.append("id=%s shape=%s known=%s in=%s ops=%s term=cv avail=%s sched=- fuel=100000" % (
            f["id"], f["shape"], f["known"], f["in"], seq_ops, f["avail"]) + carry(f))
    rc4, surv, err4 = parallel_run(DRIVER, ["k3"], surv_cases, shards=16)
    survivors = {}
    for i, line in zip(idx, surv):
        r_ = fields(line).get("res", "L:-")
        survivors[i] = [] if r_ in ("L:-", "P") else [int(x) for x in r_[2:].split(",")]
    res = analyse(cases, impl, model, full, survivors)
    res["errors"] = []
    if rc1 != 0:
        res["errors"].append("k3 harness: rc=%d %s" % (rc1, err1[-400:]))
    if rc2 != 0 or rc3 != 0:
        res["errors"].append("model driver: rc=%d/%d %s %s" % (rc2, rc3, err2[-300:], err3[-300:]))
    with open(cpath, "w") as f:
        json.dump(res, f)
    return res


def nt_of(tok):
    return int(tok.split(":")[1])


def is_setter(tok):
    return tok.split(":")[0] in ("N", "C", "Cm")


def settings_of(ops):
    """(nt1, cs1 token, nt2, cs2 token, trailing setters present?) whatever the order inside a pair"""
    lead = ops[:2]
    trail = len(ops) >= 4 and is_setter(ops[-1]) and is_setter(ops[-2])
    tr = ops[-2:] if trail else lead
    nt1 = nt_of([t for t in lead if t.startswith("N:")][0])
    cs1 = [t for t in lead if not t.startswith("N:")][0]
    nt2 = nt_of([t for t in tr if t.startswith("N:")][0])
    cs2 = [t for t in tr if not t.startswith("N:")][0]
    return nt1, cs1, nt2, cs2, trail


def analyse(cases, impl, model, full, survivors=None):
    survivors = survivors or {}
    """Compares implementation and model per case and evaluates the direct oracles.
    Returns mismatches per correspondence and oracle failures per property."""
    out = {"total": len(cases), "mismatch": {}, "oracle": {}, "dist": Counter(), "samples": [],
           "nontrivial": 0, "known": {}}

    cur = {}

    def mism(kind, c, a, b):
        out["mismatch"].setdefault(kind, [])
        if len(out["mismatch"][kind]) < 400:
            out["mismatch"][kind].append({"case": c, "impl": a, "model": b, "term": cur.get("term"),
                                          "seq": cur.get("seq"), "sites": cur.get("sites")})
        out["dist"]["mismatch_" + kind] += 1

    def oracle(prop, c, what, obs):
        out["oracle"].setdefault(prop, [])
        if len(out["oracle"][prop]) < 25:
            out["oracle"][prop].append({"case": c, "what": what, "observed": obs})
        out["dist"]["oracle_" + prop] += 1

    seen_nontrivial = set()
    for ci_, (c, a, m, fl) in enumerate(zip(cases, impl, model, full)):
        cf = fields(c)
        af, mf, ff = fields(a), fields(m), fields(fl)
        term = cf["term"].split(":")[0]
        ops = cf["ops"].split(";")
        nt1, cs1_tok, nt2, cs2_tok, trail = settings_of(ops)
        cur.update({"term": term, "seq": nt2 == 1, "sites": mf.get("sites", "-")})
        out["dist"]["term_" + term] += 1
        out["dist"]["src_" + cf["shape"].split("_")[0]] += 1
        n_in = 0 if cf["in"] == "-" else len(cf["in"].split(","))
        out["dist"]["len_" + ("0" if n_in == 0 else "1-8" if n_in <= 8 else "9-64" if n_in <= 64 else ">64")] += 1
        out["dist"]["mode_" + ("seq" if nt2 == 1 else "par")] += 1
        if a == "<skipped>":
            continue
        if "res" not in af or "res" not in mf:
            mism("run", c, a[:300], m[:300])
            continue
        if af["res"] == "unsupported":
            continue
        # --- known findings on concurrent iterators advanced before into_par() (the model is faithful
        # here: theorems C01_pre_advanced_refuted / C02_pre_advanced_index_refuted):
        #  C01: the parallel map-only ordered collect writes at the original index into a bag sized for
        #       the remaining elements and panics;
        #  C02: the sequential path reports the position among the remaining elements, the parallel
        #       paths the position in the original source
        src_ = cf["shape"].split("_")[0]
        if src_ in gen_harness.PRE_SOURCES and int(cf.get("pre", "0")) > 0 and "panic" not in cf:
            if (mf["res"] == "P" and af["res"] == "P" and mf.get("kind") == "Map" and term in ("cv", "cs", "ci")
                    and mf.get("seq") == "0"):
                out["known"]["C01_pre_map_col"] = out["known"].get("C01_pre_map_col", 0) + 1
                out["known"].setdefault("C01_pre_map_col_sample", c[:300])
                continue
            if (term in ("findix", "firstix") and mf.get("seq") == "1" and mf["res"].startswith("I:")
                    and mf["res"] != "I:-" and af["res"] == mf["res"]):
                out["known"]["C02_pre_seq_index"] = out["known"].get("C02_pre_seq_index", 0) + 1
                out["known"].setdefault("C02_pre_seq_index_sample", c[:300] + " -> " + af["res"])
        # --- K3 result correspondence (C01-C04, C06, C07, C09, C15b)
        if af["res"] != mf["res"]:
            tie = False
            if term in ("minkey", "maxkey") and af["res"].startswith("O:") and af["res"] != "O:-" and ci_ in survivors:
                # any extremal survivor satisfies C03; which one is returned on a tie is a matter of
                # the sequential clause only (std: first minimum, last maximum)
                m_ = int(cf["term"].split(":")[1])
                surv = survivors[ci_]
                v = int(af["res"][2:])
                if surv and v in surv:
                    keys = [x % m_ for x in surv]
                    best = min(keys) if term == "minkey" else max(keys)
                    tie = (v % m_ == best)
            if not tie:
                mism("result", c, af["res"], mf["res"])
            elif nt2 == 1 and term == "minkey" and v != next(x for x in surv if x % m_ == best):
                mism("seq_tie", c, af["res"], mf["res"])
            elif nt2 == 1 and term == "maxkey":
                first = next(x for x in surv if x % m_ == best)
                last = next(x for x in reversed(surv) if x % m_ == best)
                if v not in (first, last):
                    mism("seq_tie", c, af["res"], mf["res"])
                elif v == first and first != last:
                    out["known"]["C09_max_tie"] = out["known"].get("C09_max_tie", 0) + 1
                    out["known"].setdefault("C09_max_tie_sample", c[:400])
        if af["res"] == mf["res"] and term == "maxkey" and nt2 == 1 and ci_ in survivors and af["res"] not in ("O:-", "P"):
            m_ = int(cf["term"].split(":")[1])
            surv = survivors[ci_]
            if surv:
                best = max(x % m_ for x in surv)
                first = next(x for x in surv if x % m_ == best)
                last = next(x for x in reversed(surv) if x % m_ == best)
                if int(af["res"][2:]) == first and first != last:
                    out["known"]["C09_max_tie"] = out["known"].get("C09_max_tie", 0) + 1
                    out["known"].setdefault("C09_max_tie_sample", c[:400])
        # --- params / kind (C12)
        ip = af["params"].split("|")[0]
        if ip != mf["params"]:
            mism("params", c, af["params"], mf["params"])
        if af.get("pmid", "?").split("|")[0] != mf.get("pmid", "?"):
            mism("params", c, "after the stages: " + af.get("pmid", "?"), "after the stages: " + mf.get("pmid", "?"))
        if af["kind"] != mf["kind"]:
            mism("kind", c, af["kind"], mf["kind"])
        iseq = af["params"].endswith("|1")
        if iseq != (mf["params"].split("/")[0] == "M1"):
            mism("is_sequential", c, af["params"], mf["params"])
        # --- eager sites observed (C16 known findings): closures ran while building
        if af.get("clog", "-") != "-" and mf.get("sites", "-") != "-":
            for site in mf["sites"].split(","):
                if "for_each" not in site:
                    out["known"].setdefault("C16_sites", {})
                    out["known"]["C16_sites"][site] = out["known"]["C16_sites"].get(site, 0) + 1
        # --- construction-time calls (C16, C05)
        if multiset(af["clog"]) != multiset(mf["clog"]):
            mism("clog", c, af["clog"][:300], mf["clog"][:300])
        elif nt1 == 1 and af["clog"] != mf["clog"]:
            mism("clog_order", c, af["clog"][:300], mf["clog"][:300])
        # --- run-time calls (C05)
        # all calls of a full sequential evaluation of the chain (construction + run time)
        fullset = multiset(ff.get("clog", "-")) + multiset(ff.get("calls", "-"))
        icalls = multiset(af["calls"])
        iall = icalls + multiset(af["clog"])
        if term in ("find", "findix", "first", "firstix", "any", "all"):
            extra = iall - fullset
            if extra:
                oracle("C05", c, "short-circuit terminal called a closure more often than the sequential chain would", dict(extra))
        else:
            if icalls != multiset(mf["calls"]):
                mism("calls", c, af["calls"][:300], mf["calls"][:300])
            if iall != fullset:
                oracle("C05", c, "call multiset differs from the sequential chain's", {"impl": (af["clog"] + " + " + af["calls"])[:300], "seq": (ff.get("clog", "") + " + " + ff.get("calls", ""))[:300]})
        if af.get("reentered") == "1":
            oracle("C05", c, "source iterator entered by two threads at once", af.get("bursts"))
        # --- sequential mode (C09): exact order of the calls on the calling thread
        if nt2 == 1 and mf["seq"] == "1":
            seqlog = mf.get("seqlog", "-")
            ilog = af["tcalls"]
            ilog = ilog[2:] if ilog.startswith("0>") and "|" not in ilog else ("-" if ilog == "-" else "<not only caller>" + ilog[:100])
            if ilog != seqlog:
                mism("seq_order", c, ilog[:300], seqlog[:300])
        # --- thread bounds (C08)
        runs = [] if af["runs"] == "-" else af["runs"].split("|")
        if nt1 >= 1 and nt2 >= 1:
            bound = max(nt1, nt2)          # eager stages run under nt1, the terminal under nt2
            maxlive = int(af["maxlive"])
            if maxlive > bound:
                oracle("C08", c, "more than n workers alive at once", {"maxlive": maxlive, "n": bound})
            for tok in ([] if af["threads"] == "-" else af["threads"].split(",")):
                st, ths = tok.split(":")
                ths = ths.split("/")
                if len(ths) > bound:
                    oracle("C08", c, "closure %s run by more than n distinct threads" % st, {"threads": ths, "n": bound})
            for run in runs:
                sp = int(run.split(":")[5][7:])
                if sp > bound:
                    oracle("C08", c, "more than n workers spawned", run)
        if nt2 == 1 and nt1 == 1:
            if runs:
                oracle("C08", c, "Max(1) spawned threads", af["runs"])
            for tok in ([] if af["threads"] == "-" else af["threads"].split(",")):
                if tok.split(":")[1] != "0":
                    oracle("C08", c, "Max(1): closure not run on the calling thread", tok)
            if af["redthreads"] not in ("-", "0"):
                oracle("C08", c, "Max(1): reduce operator not run on the calling thread", af["redthreads"])
        elif nt2 >= 1 and af["redthreads"] != "-":
            rt = af["redthreads"].split("/")
            workers = [t for t in rt if t != "0"]
            if len(workers) > nt2:
                oracle("C08", c, "reduce operator run by more than n worker threads", rt)
            elif len(rt) > nt2:
                out["known"]["C08"] = out["known"].get("C08", 0) + 1
                out["known"].setdefault("C08_sample", c)
        # --- chunk sizes (C11)
        for run in runs:
            t = run.split(":")
            if t[3] == "exact":
                want = int(t[2][5:])
                sizes = [] if t[6][5:] == "-" else [int(x) for x in t[6][5:].split("/")]
                if any(s != want for s in sizes):
                    oracle("C11", c, "Exact chunk size not handed to every worker", run)
        cs2 = cs2_tok.split(":")
        n_eager = 0 if mf.get("sites", "-") == "-" else len(mf["sites"].split(","))
        if cs2[0] == "C" and int(cs2[1]) > 0 and len(runs) > n_eager and nt2 != 1:
            t = runs[-1].split(":")
            want = int(cs2[1])
            ln = t[4][3:]
            if ln != "?":
                want = min(want, max(int(ln), 1))
            if t[3] != "exact" or int(t[2][5:]) != want:
                oracle("C11", c, "Exact(c) not resolved to c", run)
            if af.get("bursts", "-") != "-" and len(runs) == 1:
                bs = [int(b.split("x")[1]) for b in af["bursts"].split(",")]
                total = sum(bs)
                # every burst is a whole number of pulls of size c, except for the pull that meets the end
                bad = [b for b in bs[:-1] if b % want != 0 and not (b % want == (n_in + 1) % want or b % want == n_in % want)]
                if bad and total <= n_in + len(bs) + 1:
                    out["dist"]["c11_burst_suspects"] += 1
        # --- C16: nothing is consumed while building; the terminal runs under the parameters last set
        if src_ in ("iterx", "iteru") and "srcctor" in af:
            want_c, got_c = int(mf.get("consumed", "0")), int(af["srcctor"])
            if want_c == 0 and got_c > 0:
                oracle("C16", c, "source elements were consumed while the computation was being built", {"elements": got_c})
            elif want_c != got_c:
                mism("consumed", c, got_c, want_c)
        # (the harness writes sum as map(wrap).sum(): one more stage, possibly an eager one -- not compared)
        rph = [] if af.get("runphases", "-") == "-" else af["runphases"].split("/")
        truns = [r_ for r_, ph_ in zip(runs, rph) if ph_ == "1"]
        n_src = max(0, n_in - int(cf.get("pre", "0")))
        if mf.get("rlen", "?") not in ("?", "-"):
            n_src = int(mf["rlen"])          # what the terminal's run iterates over (after eager sites)
        if term != "sum" and len(rph) == len(runs) and n_src > 0:
            if mf.get("seq") == "1":
                if truns:
                    oracle("C16", c, "worker threads were spawned by the terminal although the parameters last set are sequential", af["runs"])
            elif mf.get("runner", "-") != "-":
                if not truns:
                    if ip != mf["params"]:
                        # the implementation itself reports other parameters than the ones set last: it ran under stale ones
                        oracle("C16", c, "the terminal ran on the calling thread under stale parameters: the ones set last are not sequential",
                               {"params_last_set": mf["params"], "params_reported": af["params"], "runs": af["runs"]})
                    else:
                        mism("seqpar", c, "no run inside the terminal", "parallel run with " + mf["runner"])
                else:
                    t = truns[-1].split(":")
                    got_r = ":".join(t[1:4])
                    if got_r != mf["runner"]:
                        mism("runner", c, got_r, mf["runner"])
        # --- C15b: no panic
        if af["res"] == "P":
            oracle("C15", c, "terminal panicked", a[:300])
        nontriv = (n_in > 1 and nt2 != 1 and len(ops) > 4)
        if nontriv:
            seen_nontrivial.add(c.split(" ", 1)[1])
        if len(out["samples"]) < 6 and nontriv and (len(out["samples"]) * 97) % 7 == int(cf["id"]) % 7:
            out["samples"].append({"case": c, "impl": a[:400], "model": m[:400]})
    out["nontrivial"] = len(seen_nontrivial)
    out["dist"] = dict(out["dist"])
    return out
