"""What MANIFEST.json claims, per property."""

NOTE = ("Trusted: Coq kernel; the hand-written model's faithfulness (checked by the correspondence runs on the inputs/"
        "schedules they explore, not proved); extraction (ExtrOcamlBasic) + OCaml driver; Rust harness; SC interleaving "
        "of atomics; dependency crates modelled from their source, not verified. No axioms.")

CLAIMS = {
    "C11": {
        "technique": "Coq proof (settings arithmetic + runner machine) + differential correspondence",
        "text": "Theorems: Exact(c) resolves to c (clamped to a known input length) and next_chunk_size hands exactly that value to every later worker for every num_spawned/has_more; tied to /repo by K1 (exhaustive dense grid + boundary + seeded random evaluation of the real Runner::new/do_spawn/next_chunk_size against the extracted model) with the direct oracle 'every handed-out size equals the resolved Exact size'.",
        "design_ref": "DESIGN.md section 5 C11, section 4.4 K1",
        "note": NOTE,
    },
    "C15": {
        "technique": "Coq proof of totality of the checked-usize settings arithmetic + differential correspondence",
        "text": "Theorems: within the stated bounds no checked usize operation of calc_num_threads/calc_chunk_size/do_spawn/next_chunk_size overflows, underflows or divides by zero, the halving loop terminates, resolved settings are >= 1; tied to /repo by K1 including which inputs panic (debug build).",
        "design_ref": "DESIGN.md section 5 C15, section 4.4 K1",
        "note": NOTE,
    },
}

_PENDING = "check under construction in this round (Coq model layer not yet built); the property is decidable by the technique, see DESIGN.md section 5"
NOT_APPLICABLE = {p: _PENDING for p in
                  ["C01", "C02", "C03", "C04", "C05", "C06", "C07", "C08", "C09", "C10", "C12", "C13", "C14", "C16"]}
