"""What MANIFEST.json claims, per property."""

NOTE = ("Trusted: Coq 8.16.1 kernel; the hand-written model's faithfulness (checked by the correspondence runs on the inputs/"
        "schedules they explore, not proved); extraction (ExtrOcamlBasic only) + OCaml driver; Rust harness; SC interleaving "
        "of atomics; dependency crates (orx-concurrent-iter, ordered bag, priority queue, SplitVec/FixedVec) modelled from "
        "their source, not verified. No axioms (Print Assumptions: closed under the global context).")

K3 = ("tied to /repo by K3: ~10500 (quick) generated computations over 159 (source kind x chain shape) programs (Vec, slice, "
      "&Vec, range, exact/unknown-size iterators, VecDeque (wrapped, owned and borrowed), BTreeSet, HashSet, LinkedList, "
      "BinaryHeap, cloned view, pre-advanced concurrent iterators) x 21 terminals x num_threads/chunk_size settings run on the "
      "real crate and on the extracted model, K4: ~1500 replays under the deterministic scheduler, and K7: all par()/into_par() conversions against the collection's own iterator; ")


def c(technique, text, ref):
    return {"technique": technique, "text": text, "design_ref": ref, "note": NOTE}


CLAIMS = {
    "C01": c("Coq proof (all schedules, all chains) + differential correspondence with the extracted model",
             "Theorems: for every operation sequence on the eight computation types (any eager sites), every well-formed resolved "
             "setting and every schedule of the runner machine, the merge-collect and bag-collect kernels return the sequential "
             "chain's output (partition invariant, key-sorted k-way merge, exactly-once positional writes); " + K3 +
             "collect_vec/collect/collect_into values compared with the specification value. Known finding: a concurrent "
             "iterator advanced before into_par() + parallel map-only collect panics.", "DESIGN.md 5 C01"),
    "C02": c("Coq proof (all schedules incl. early-exit races) + differential correspondence",
             "Theorems: for every schedule the min-by-index combination of per-worker first matches is the least matching "
             "position and its first yielded value, None iff nothing matches; predicates are one more filter stage; " + K3 +
             "find/first/*_with_index/any/all compared with the specification (K4 incl. designed flat_map inner-offset "
             "races and 8192-element chunks). Known finding: pre-advanced concurrent iterator, sequential *_with_index "
             "reports the position among the remaining elements.", "DESIGN.md 5 C02"),
    "C03": c("Coq proof (assoc+comm operator, all schedules) + differential correspondence",
             "Theorem: the per-chunk / per-thread / spawn-order combination tree equals the left fold over the sequential output "
             "for every schedule when the operator is associative and commutative; " + K3 +
             "reduce with wrapping add, xor, min, max on pipelines with duplicates.", "DESIGN.md 5 C03"),
    "C04": c("Coq proof (all schedules) + differential correspondence incl. call multisets",
             "Theorems: count = length of the sequential output; the call log of map(f).count() is a permutation of the sequential "
             "log; " + K3 + "count values and for_each argument multisets compared.", "DESIGN.md 5 C04"),
    "C05": c("Coq proof (call accounting in the closure-composition model, all schedules) + call-log correspondence",
             "Theorems: every lazy transformation extends the per-element trace by exactly the new stage; construction-time plus "
             "run-time calls are a permutation of the sequential calls; every position is processed by exactly one worker; " + K3 +
             "instrumented closures: (stage,arg) multisets vs model and vs the sequential chain; re-entrancy flag in the "
             "instrumented source iterator. Partial: the ConIterOfIter handle protocol is exercised only free-running.",
             "DESIGN.md 5 C05"),
    "C06": c("Coq proof (offset writes / push-after-merge, all schedules) + target sweep correspondence",
             "Theorems: collect_into = old ++ sequential output for the merge path and the positional-write path, any old contents; "
             + K3 + "Vec/SplitVec/FixedVec targets x known/unknown-length sources x all kinds.", "DESIGN.md 5 C06"),
    "C07": c("Coq proof (all schedules) + differential correspondence",
             "Theorem: collect_x is a permutation of the sequential output for every schedule; " + K3 +
             "sorted contents compared.", "DESIGN.md 5 C07"),
    "C08": c("Coq proof (spawner invariant, all schedules) + hook-gauge correspondence",
             "Theorems: Max(n) resolves to <= n threads; in every reachable state the number of workers spawned is <= max_num_threads; "
             "is_sequential iff Max(1); " + K3 + "live-worker gauge, spawn counts and per-closure thread-id sets from the verif-hooks "
             "events; K1 for the thread-count arithmetic. Known finding: reduce operator also runs on the caller.",
             "DESIGN.md 5 C08"),
    "C09": c("Coq proof (denotation + exact call order for one-pass pipelines) + sequential-mode correspondence",
             "Theorems: sequential value = std chain value for every operation sequence; reduce is a left fold with no assumption "
             "on the operator; for pipelines without eager sites the run-time call sequence is the sequential one; " + K3 +
             "num_threads(1) runs with non-associative operators and exact per-thread call order.", "DESIGN.md 5 C09"),
    "C10": c("Coq proof (signal closes the source; measure-based termination, every schedule) + endless-source runs",
             "Theorems: after skip_to_end no pull succeeds; the effective steps remaining after the signal are bounded by the thread "
             "bound and chunk sizes only; every step stutters or decreases a measure, so no reachable state is stuck, no schedule has "
             "more than 5*max+2+4*len effective steps, and any prefix followed by round robin completes; the same three results "
             "over by-value iterator sources (ticket/gate protocol: liveness invariant - every position between frontier and "
             "ticket counter claimed exactly once -, no deadlock on the handle, work after the signal bounded by threads and "
             "chunk sizes only); sequential find consumes a trace up to its first yield. K10: find/any/all/first on an endless "
             "iterator source and on very long ranges of known length in child processes with timeouts, value vs model on a "
             "finite prefix, source consumption exact (sequential, every chain x explicit chunk sizes) / bounded (parallel). "
             "Partial: fairness is 'any prefix then round robin'; free-running consumption bound is generous.", "DESIGN.md 5 C10"),
    "C11": c("Coq proof (settings arithmetic) + differential correspondence + hook observation",
             "Theorems: Exact(c) resolves to c (clamped to a known length) and every later worker is handed exactly that size; "
             "K1 exhaustive grid on the real Runner functions; K3: chunk sizes handed to workers (WorkerBegin hook).",
             "DESIGN.md 5 C11"),
    "C12": c("Coq proof (induction over operation lists) + differential correspondence",
             "Theorems: params = last set values through all transformations incl. eager sites; usize conversions; is_sequential iff "
             "Max(1); " + K3 + "params()/is_sequential()/type name compared on every case (setters before and after the chain).",
             "DESIGN.md 5 C12"),
    "C13": c("Coq proof on the ownership model of the unsafe islands (every schedule) + canary-item correspondence",
             "Theorems: for every schedule every element of an owning source is moved out exactly once or dropped in place exactly "
             "once (first skip_to_end / iterator Drop / draining chunk iterator), never both; the merge reads every (key,value) "
             "exactly once; every bag slot is written exactly once; fragments hold every value once; over iterator sources every "
             "yielded element is processed or abandoned exactly once. K6: canary items with "
             "per-item drop counts through every terminal x owning sources x params in child processes. Partial: real memory is a "
             "runtime fact; safe Rust between the islands is assumed linear (compiler guarantee).", "DESIGN.md 5 C13"),
    "C14": c("Coq proof on the ownership model with panicking closures (every schedule) + panic-injection correspondence",
             "Theorems: a worker that processed a panicking position is dead (never swallowed); fair continuation completes (no "
             "hang); source accounting holds with arbitrary panics; the guarded bag drops nothing on unwind (unguarded policy "
             "refuted); no hang and element accounting also over iterator sources. K6: panic injected at every kind of chain "
             "closure call and in the reduce operator (k-th call / on the calling thread, workers slowed so that all take part): "
             "outcome must be a panic, no item dropped twice, no never-initialised memory dropped, process must not abort or "
             "hang. Partial as C13.", "DESIGN.md 5 C14"),
    "C15": c("Coq proof of totality of the checked-usize settings arithmetic + differential correspondence",
             "Theorems: no checked usize operation overflows/underflows/divides by zero within the stated bounds, resolved settings "
             ">= 1; K1 including which inputs panic; K3: every parallel result equals the specification and no terminal panics over "
             "the configuration grid.", "DESIGN.md 5 C15"),
    "C16": c("Coq proof (laziness of 24 transitions, exact eager list) + construction-log correspondence",
             "Theorems: outside the eight known sites nothing runs during construction; setters never run anything; at the known "
             "sites the upstream stage is fully evaluated (refutation witness); " + K3 + "construction-time call logs; source "
             "elements pulled from an instrumented iterator while building; the terminal's run (RunBegin hook) vs Runner::new of the "
             "parameters last set, sequential vs parallel; the eight sites are reported as KNOWN-FINDING, any other is a violation.",
             "DESIGN.md 5 C16"),
}

_PENDING = "check under construction in this round (Coq model layer not yet built); the property is decidable by the technique, see DESIGN.md section 5"
NOT_APPLICABLE = {}
