"""K1: settings arithmetic of the real crate vs Settings.v (extracted), on a dense grid,
boundary values and seeded random cases. Results are cached per (repo, model, harness) hash."""
import json
import os
import random
import subprocess

from vlib import CACHE, DRIVER, ENV, ensure_harness, harness_hash, model_hash, repo_hash

U = (1 << 64) - 1


def opt(x):
    return "-" if x is None else str(x)


def gen_cases(tier, seed):
    cases = []
    dense_len = [None] + list(range(0, 41))
    nts = list(range(0, 19))
    avails = [1, 2, 4, 16] if tier == "quick" else [1, 2, 3, 4, 8, 16, 64]
    css = [("a", 1)] + [("m", c) for c in range(1, 21)] + [("e", c) for c in range(1, 21)]
    # (A) Runner::new on the dense grid
    for ln in dense_len:
        for nt in nts:
            for av in avails:
                for (k, c) in css:
                    for task in (0, 1, 2):
                        cases.append((nt, k, c, ln, av, task, 0, None))
    # (B) spawn decisions
    for ln in [None, 0, 1, 5, 17, 40, 1000]:
        for nt in [0, 1, 2, 4, 5, 8, 17]:
            for av in [4, 16]:
                for (k, c) in [("a", 1), ("m", 1), ("m", 3), ("m", 64), ("e", 1), ("e", 3), ("e", 64)]:
                    for ns in range(0, 18):
                        hms = [None, 0, 1]
                        if ln:
                            hms += [ln // 2, ln]
                        for hm in hms:
                            cases.append((nt, k, c, ln, av, 0, ns, hm))
    # (C) boundary values
    big_len = [63, 64, 65, 1 << 20, 1 << 22, (1 << 22) + 1, 1 << 23, 1 << 32, 1 << 47]
    big_c = [1, 64, 1 << 20, 1 << 32, 1 << 40, 1 << 62, 1 << 63, U]
    for ln in big_len + [None, 0, 1]:
        for (k, cs) in [("a", [1]), ("m", big_c), ("e", big_c)]:
            for c in cs:
                for nt in [0, 1, 4, 16, U]:
                    for av in [1, 16, 64]:
                        for task in (0, 1, 2):
                            for ns in [0, 1, 3, 4, 15]:
                                hms = [None, 0, 1]
                                if ln:
                                    hms += [ln // 2, ln]
                                for hm in hms:
                                    cases.append((nt, k, c, ln, av, task, ns, hm))
    # (D) seeded random
    rnd = random.Random(seed)
    n_rand = 20000 if tier == "quick" else 200000

    def rv(hi_bits):
        b = rnd.choice([3, 6, 10, 20, 33, 47, hi_bits])
        return rnd.randrange(0, 1 << b)
    for _ in range(n_rand):
        ln = rnd.choice([None, rv(47), rv(20), rv(6)])
        k = rnd.choice("ame")
        c = max(1, rv(64))
        nt = rnd.choice([0, rv(6), rv(6), rv(64)])
        av = rnd.choice([1, 2, 3, 4, 8, 16, 32, 64, 128])
        task = rnd.randrange(3)
        ns = rv(6)
        hm = rnd.choice([None, 0, rv(20), ln])
        if hm is not None and ln is not None and hm > ln:
            hm = ln
        cases.append((nt, k, c, ln, av, task, ns, hm))
    return cases


def line_of(case):
    nt, k, c, ln, av, task, ns, hm = case
    return "%d %s %d %s %d %d %d %s" % (nt, k, c, opt(ln), av, task, ns, opt(hm))


def run_k1(tier, seed):
    """Returns dict(total, nontrivial, mismatches=[(line, impl, model)], panics, samples, dist)."""
    os.makedirs(CACHE, exist_ok=True)
    key = "k1-%s-%s-%s-%s-%d" % (repo_hash(), model_hash(), harness_hash(), tier, seed)
    cpath = os.path.join(CACHE, key + ".json")
    if os.path.exists(cpath):
        with open(cpath) as f:
            return json.load(f)
    bins = ensure_harness(["k1"])
    cases = gen_cases(tier, seed)
    lines = [line_of(c) for c in cases]
    text = "\n".join(lines) + "\n"
    p1 = subprocess.run([bins["k1"]], input=text, stdout=subprocess.PIPE, stderr=subprocess.PIPE, text=True, errors="replace", env=ENV)
    p2 = subprocess.run([DRIVER, "k1"], input=text, stdout=subprocess.PIPE, stderr=subprocess.PIPE, text=True, errors="replace", env=ENV)
    impl = p1.stdout.split("\n")[:-1]
    model = p2.stdout.split("\n")[:-1]
    res = {"total": len(lines), "mismatches": [], "panics": 0, "nontrivial": 0, "samples": [],
           "dist": {}, "errors": []}
    if p1.returncode != 0 or len(impl) != len(lines):
        res["errors"].append("k1 harness failed: rc=%s lines=%d/%d %s" % (p1.returncode, len(impl), len(lines), p1.stderr[-400:]))
    if p2.returncode != 0 or len(model) != len(lines):
        res["errors"].append("model driver failed: rc=%s lines=%d/%d %s" % (p2.returncode, len(model), len(lines), p2.stderr[-400:]))
    seen = set()
    dist = {}
    for i, ln in enumerate(lines):
        a = impl[i] if i < len(impl) else "<missing>"
        b = model[i] if i < len(model) else "<missing>"
        if a != b:
            if len(res["mismatches"]) < 50:
                res["mismatches"].append([ln, a, b])
            else:
                res["mismatches_more"] = res.get("mismatches_more", 0) + 1
        if a == "panic":
            res["panics"] += 1
            if len(res.setdefault("panic_samples", [])) < 20:
                res["panic_samples"].append(ln)
        else:
            t = a.split()
            if ln not in seen and len(t) == 5 and (t[0] != "1" or t[1] != "1"):
                seen.add(ln)
        ck = ln.split()[1]
        dist["chunk_kind_" + ck] = dist.get("chunk_kind_" + ck, 0) + 1
        if i % 9973 == 0 and len(res["samples"]) < 8:
            res["samples"].append({"case": ln, "impl": a, "model": b})
    res["nontrivial"] = len(seen)
    res["dist"] = dist
    with open(cpath, "w") as f:
        json.dump(res, f)
    return res


def exact_oracle(tier, seed):
    """Direct oracle for C11 on the K1 runs: with Exact(c) every chunk size handed out is
    min(c, max(len,1)) (len known) or c. Returns list of failing (line, impl)."""
    bins = ensure_harness(["k1"])
    cases = [c for c in gen_cases(tier, seed) if c[1] == "e"]
    lines = [line_of(c) for c in cases]
    p1 = subprocess.run([bins["k1"]], input="\n".join(lines) + "\n", stdout=subprocess.PIPE, text=True, env=ENV)
    out = p1.stdout.split("\n")[:-1]
    bad = []
    for case, ln, o in zip(cases, lines, out):
        nt, k, c, l, av, task, ns, hm = case
        want = c if l is None else min(c, max(l, 1))
        t = o.split()
        if o == "panic":
            bad.append((ln, o, "panic"))
            continue
        if int(t[1]) != want or t[2] != "1" or (t[4] != "-" and int(t[4]) != want):
            bad.append((ln, o, "expected chunk %d for every worker" % want))
    return len(lines), bad
